"""C11 - schema conformance checks accept exactly conformant requests and entities (engine M).
The checkers are structural recursions / loops over the datum; they are decided per node and per loop element:
  * request: ValidatorSchema::{validate_request, validate_scope_variables, validate_context}, check_{principal,resource}_type
  * entity:  EntitySchemaConformanceChecker::{validate_entity, validate_entity_attributes, validate_entity_ancestors, validate_tags, validate_action},
             validate_euid, is_valid_enumerated_entity, validate_euids_in_subexpressions
  * values:  typecheck_restricted_expr_against_schematype (entity attributes / tags) and Type::typecheck_restricted_expr (contexts) for every type kind,
             with containers of <= 2 members and recursive calls on members returning arbitrary verdicts (=> data of any depth by structural induction)
Schema look-ups (entity_type, action, attr_type, allowed_parent_types.contains, ...) are environment stubs returning arbitrary answers, logged."""
import z3
from ..executor import IntV, BoolV, Agg, Opaque, Ref, NotEncoded, UNIT
from ..models import ok, err, some, none

T, F = z3.BoolVal(True), z3.BoolVal(False)


def res(ex, st, v, n=8):
    while isinstance(v, Ref) and n > 0:
        v = ex.read(st, v.fid, v.place)
        n -= 1
    if isinstance(v, Agg) and v.name == 'Arc':
        v = v.fields[0]
    return v


def ident(ex, st, v):
    return getattr(res(ex, st, v), 'id', None)


def pcs(outs):
    return z3.Or([z3.And(o.pc) if o.pc else T for o in outs]) if outs else F


def err_class(v):
    """variant / wrapper chain of an error value -> short class string"""
    out = []
    n = 0
    while isinstance(v, Agg) and n < 6:
        if v.variant and v.variant not in ('Err',):
            out.append(v.variant)
        elif v.fnames and isinstance(v.fnames[0], str) and v.fnames[0].startswith('from:'):
            out.append(v.fnames[0][5:])
        elif v.name and v.name.startswith('~'):
            out.append(v.name[1:])
            break
        elif v.name:
            out.append(v.name.split('::')[-1])
        if not v.fields:
            break
        v = v.fields[0]
        n += 1
    return '/'.join(out)


# ---------------------------------------------------------------------------------------------------------------- native battery

SCHEMA = ('entity Org; entity Group in [Org]; entity Color enum ["red", "blue", "teal", "pink"]; '
          'entity User in [Group, Color] { name: String, age?: Long, fav?: Color, r?: {a: Long, b?: String}, s?: Set<Long>, ip?: ipaddr, boss?: User, '
          'deep?: {x: {c: Color, n?: Long}}, sr?: Set<{c: Color}>, ss?: Set<Set<Color>>, act?: Action } tags Set<{c: Color}>; '
          'entity Photo { owner?: User }; '
          'action view appliesTo { principal: User, resource: Photo, context: { n: Long, who?: User, c?: Color, r?: {a: Long, o?: Long}, deep?: {x: {c: Color}}, sr?: Set<{c: Color}>, act?: Action } }; '
          'action paint appliesTo { principal: Color, resource: Photo, context: {} };')


def user(attrs=None, parents=None, tags=None, uid=None):
    a = {'name': 'x'}
    a.update(attrs or {})
    for k in [k for k, v in a.items() if v is None]:
        del a[k]
    return {'uid': uid or {'type': 'User', 'id': 'a'}, 'attrs': a, 'parents': parents or [], 'tags': tags or {}}


def ent(t, i):
    return {'__entity': {'type': t, 'id': i}}


def par(t, i):
    return {'type': t, 'id': i}


RED, GREEN = ent('Color', 'red'), ent('Color', 'green')          # green is not among the declared choices
IP = {'__extn': {'fn': 'ip', 'arg': '1.2.3.4'}}
# (label, entities, conformant?, repetitions)  - every non-conformant probe violates exactly one requirement, at one position
ENTITY_BATTERY = [
    ('conformant entity with every optional attribute', [user({'age': 3, 'fav': RED, 'r': {'a': 1, 'b': 's'}, 's': [1, 2], 'ip': IP, 'boss': ent('User', 'b'), 'deep': {'x': {'c': RED, 'n': 1}},
                                                               'sr': [{'c': RED}, {'c': ent('Color', 'blue')}], 'ss': [[RED]], 'act': ent('Action', 'view')}, [par('Group', 'g')], {'t': [{'c': RED}]})], True, 1),
    ('only the required attribute', [user()], True, 1),
    ('required attribute missing', [user({'name': None})], False, 1),
    ('required attribute missing while optional ones are present', [user({'name': None, 'age': 1, 'fav': RED})], False, 1),
    ('undeclared attribute', [user({'zzz': 1})], False, 1),
    ('required attribute of the wrong type', [user({'name': 1})], False, 1),
    ('optional attribute of the wrong type', [user({'age': 'old'})], False, 1),
    ('nested record field of the wrong type', [user({'r': {'a': 'one'}})], False, 1),
    ('nested record misses a required field', [user({'r': {'b': 's'}})], False, 1),
    ('nested record has an undeclared field', [user({'r': {'a': 1, 'z': 1}})], False, 1),
    ('record two levels down misses a required field', [user({'deep': {'x': {'n': 1}}})], False, 1),
    ('record two levels down has an undeclared field', [user({'deep': {'x': {'c': RED, 'z': 1}}})], False, 1),
    ('record two levels down has a field of the wrong type', [user({'deep': {'x': {'c': RED, 'n': 's'}}})], False, 1),
    ('set element of the wrong type (second element)', [user({'s': [1, 'two']})], False, 1),
    ('set element of the wrong type (first element)', [user({'s': ['one', 2]})], False, 1),
    ('record inside a set misses its required field', [user({'sr': [{'c': RED}, {}]})], False, 1),
    ('set inside a set has an element of the wrong type', [user({'ss': [[RED], [1]]})], False, 1),
    ('empty set for a set attribute', [user({'s': []})], True, 1),
    ('entity reference of the wrong entity type', [user({'boss': ent('Photo', 'p')})], False, 1),
    ('extension value of the wrong type', [user({'ip': {'__extn': {'fn': 'decimal', 'arg': '1.0'}}})], False, 1),
    ('enumerated id not among the choices: attribute value', [user({'fav': GREEN})], False, 1),
    ('enumerated id not among the choices: record two levels down', [user({'deep': {'x': {'c': GREEN}}})], False, 1),
    ('enumerated id not among the choices: record inside a set (second element)', [user({'sr': [{'c': RED}, {'c': GREEN}]})], False, 1),
    ('enumerated id not among the choices: set inside a set', [user({'ss': [[RED], [GREEN]]})], False, 1),
    ('enumerated id not among the choices: inside a tag value', [user(tags={'t': [{'c': GREEN}]})], False, 1),
    ('enumerated id not among the choices: the entity itself', [{'uid': par('Color', 'green'), 'attrs': {}, 'parents': []}], False, 1),
    ('enumerated id not among the choices: the only parent', [user(parents=[par('Color', 'green')])], False, 1),
    ('enumerated id not among the choices: one of four parents of that type', [user(parents=[par('Color', 'red'), par('Color', 'blue'), par('Color', 'teal'), par('Color', 'green')])], False, 6),
    ('enumerated id among the choices: the entity itself', [{'uid': par('Color', 'red'), 'attrs': {}, 'parents': []}], True, 1),
    ('four parents of an enumerated type, all declared', [user(parents=[par('Color', 'red'), par('Color', 'blue'), par('Color', 'teal'), par('Color', 'pink')])], True, 1),
    ('undeclared action as an attribute value', [user({'act': ent('Action', 'nope')})], False, 1),
    ('tag of the wrong type', [user(tags={'t': 1})], False, 1),
    ('second tag of the wrong type', [user(tags={'t': [{'c': RED}], 'u': 's'})], False, 4),
    ('tags on a type that declares none', [{'uid': par('Photo', 'p'), 'attrs': {}, 'parents': [], 'tags': {'t': 'v'}}], False, 1),
    ('parent of a permitted type', [user(parents=[par('Group', 'g')])], True, 1),
    ('ancestor of a transitively permitted type', [user(parents=[par('Org', 'o')])], True, 1),
    ('parent of a type that is not permitted', [user(parents=[par('Photo', 'p')])], False, 1),
    ('one of three parents has a type that is not permitted', [user(parents=[par('Group', 'g'), par('Group', 'h'), par('Photo', 'p')])], False, 4),
    ('entity of an undeclared type', [{'uid': par('Ghost', 'x'), 'attrs': {}, 'parents': []}], False, 1),
    ('declared action, identical to the schema definition', [{'uid': par('Action', 'view'), 'attrs': {}, 'parents': []}], True, 1),
    ('undeclared action', [{'uid': par('Action', 'nope'), 'attrs': {}, 'parents': []}], False, 1),
    ('declared action with an extra attribute', [{'uid': par('Action', 'view'), 'attrs': {'x': 1}, 'parents': []}], False, 1),
    ('declared action with a parent the schema does not give it', [{'uid': par('Action', 'view'), 'attrs': {}, 'parents': [par('Action', 'paint')]}], False, 1),
    ('second entity of two violates (wrong type)', [user(), user({'name': 2}, uid=par('User', 'b'))], False, 1),
    ('first entity of two violates (missing attribute)', [user({'name': None}), user(uid=par('User', 'b'))], False, 1),
    ('photo owner refers to an entity of the wrong type', [{'uid': par('Photo', 'p'), 'attrs': {'owner': ent('Group', 'g')}, 'parents': []}], False, 1),
]

# entities built through the API (Entity::new_with_tags), not parsed: (label, api_entity, conforms)
API_ENTITY_BATTERY = [('enumerated entity without attributes (built through the API)', {'uid': 'Color::"red"', 'attrs': {}, 'tags': {}}, True),
                      ('enumerated entity with an undeclared attribute (built through the API)', {'uid': 'Color::"red"', 'attrs': {'shade': 1}, 'tags': {}}, False),
                      ('enumerated entity with a tag (built through the API)', {'uid': 'Color::"red"', 'attrs': {}, 'tags': {'t': 1}}, False),
                      ('entity of a type without tags carrying a tag (built through the API)', {'uid': 'Group::"g"', 'attrs': {}, 'tags': {'t': 1}}, False)]
# partial requests ("?" = unknown), through cedar_policy_core::ast::Request::new_with_unknowns: every KNOWN component is checked
PARTIAL_REQUEST_BATTERY = [('partial request: principal known and of an applicable type, resource unknown', {'principal': 'User::"a"', 'action': 'Action::"view"', 'resource': '?'}, True),
                           ('partial request: principal unknown, resource known and applicable', {'principal': '?', 'action': 'Action::"view"', 'resource': 'Photo::"p"'}, True),
                           ('partial request: principal of a type the action does not apply to, resource unknown', {'principal': 'Photo::"p"', 'action': 'Action::"view"', 'resource': '?'}, False),
                           ('partial request: resource of a type the action does not apply to, principal unknown', {'principal': '?', 'action': 'Action::"view"', 'resource': 'User::"a"'}, False),
                           ('partial request: undeclared principal type, resource unknown', {'principal': 'Ghost::"g"', 'action': 'Action::"view"', 'resource': '?'}, False),
                           ('partial request: undeclared action, everything else unknown', {'principal': '?', 'action': 'Action::"nope"', 'resource': '?'}, False),
                           ('partial request: everything unknown but the action', {'principal': '?', 'action': 'Action::"view"', 'resource': '?'}, True)]
REQ = {'principal': 'User::"a"', 'action': 'Action::"view"', 'resource': 'Photo::"p"', 'context': {'n': 1}}
REQUEST_BATTERY = [
    ('conformant request', {}, True),
    ('conformant request with optional context attributes', {'context': {'n': 1, 'who': ent('User', 'b'), 'c': RED, 'r': {'a': 1, 'o': 2}, 'deep': {'x': {'c': RED}}, 'sr': [{'c': RED}], 'act': ent('Action', 'view')}}, True),
    ('principal type the action does not apply to', {'principal': 'Photo::"p"'}, False),
    ('resource type the action does not apply to', {'resource': 'User::"a"'}, False),
    ('undeclared action', {'action': 'Action::"nope"'}, False),
    ('undeclared principal type', {'principal': 'Ghost::"g"'}, False),
    ('undeclared resource type', {'resource': 'Ghost::"g"'}, False),
    ('enumerated principal id among the choices', {'principal': 'Color::"red"', 'action': 'Action::"paint"', 'context': {}}, True),
    ('enumerated principal id not among the choices', {'principal': 'Color::"green"', 'action': 'Action::"paint"', 'context': {}}, False),
    ('context misses a required attribute', {'context': {}}, False),
    ('context misses a required attribute while optional ones are present', {'context': {'who': ent('User', 'b'), 'c': RED}}, False),
    ('context has an undeclared attribute', {'context': {'n': 1, 'zzz': 1}}, False),
    ('context attribute of the wrong type', {'context': {'n': 'one'}}, False),
    ('optional context entity of the wrong type', {'context': {'n': 1, 'who': ent('Photo', 'p')}}, False),
    ('enumerated id not among the choices inside the context', {'context': {'n': 1, 'c': GREEN}}, False),
    ('enumerated id not among the choices two levels down in the context', {'context': {'n': 1, 'deep': {'x': {'c': GREEN}}}}, False),
    ('enumerated id not among the choices in a record inside a set in the context', {'context': {'n': 1, 'sr': [{'c': RED}, {'c': GREEN}]}}, False),
    ('undeclared action inside the context', {'context': {'n': 1, 'act': ent('Action', 'nope')}}, False),
    ('nested context record field of the wrong type', {'context': {'n': 1, 'r': {'a': 's'}}}, False),
    ('nested context record misses a required field', {'context': {'n': 1, 'r': {}}}, False),
    ('nested context record misses a required field while the optional one is present', {'context': {'n': 1, 'r': {'o': 1}}}, False),
    ('nested context record has an undeclared field', {'context': {'n': 1, 'r': {'a': 1, 'z': 1}}}, False),
    ('context record two levels down misses a required field', {'context': {'n': 1, 'deep': {'x': {}}}}, False),
    ('context record inside a set misses its required field', {'context': {'n': 1, 'sr': [{'c': RED}, {}]}}, False),
]


def battery_replay(ctx, name, role, why):
    """native confirmation through every public entry point that takes a schema: each probe violates exactly one requirement (or none)"""
    cache = getattr(ctx, '_c11_battery', None)
    if cache is None:
        cache = ctx._c11_battery = {}
    if 'bad' in cache:
        what, replay = cache['bad']
        return ctx.violation(name, role, f'{why}; natively: {what}', replay)
    if cache.get('clean'):
        return ('unreplayed', f'{why}; but the battery of single-requirement conformance probes behaves as specified on every entry point')
    r = _battery_run(ctx, name, role, why, cache)
    if r and r[0] == 'unreplayed':
        cache['clean'] = True
    return r


def _battery_run(ctx, name, role, why, cache):
    for label, ents, want, reps in [x for x in ENTITY_BATTERY for _ in range(x[3])]:
        a = ctx.native.ask({'op': 'conformance', 'schema': SCHEMA, 'entities': ents})
        if 'entities' not in a:
            return ctx.mismatch(name, f'conformance probe `{label}` failed: {a}')
        for ep, r in a['entities'].items():
            if ep == 'schemaless_parse':
                return ctx.mismatch(name, f'conformance probe `{label}` does not parse without a schema: {r}')
            if (r == 'ok') != want:
                what = f'`{label}` is {"accepted" if r == "ok" else "rejected"} by {ep} ({r[:120]}), a datum that {"conforms" if want else "violates exactly this requirement"}'
                cache['bad'] = (what, {'op': 'conformance', 'schema': SCHEMA, 'entities': ents, 'expected_accept': want, 'entry_point': ep})
                return ctx.violation(name, role, f'{why}; natively: {what}', cache['bad'][1])
    for label, ent_, want in API_ENTITY_BATTERY:
        a = ctx.native.ask({'op': 'conformance', 'schema': SCHEMA, 'api_entity': ent_})
        if 'entities' not in a or 'input_error' in a['entities']:
            return ctx.mismatch(name, f'conformance probe `{label}` failed: {a}')
        for ep, r in a['entities'].items():
            if (r == 'ok') != want:
                what = f'`{label}` is {"accepted" if r == "ok" else "rejected"} by {ep} ({r[:120]})'
                cache['bad'] = (what, {'op': 'conformance', 'schema': SCHEMA, 'api_entity': ent_, 'expected_accept': want, 'entry_point': ep})
                return ctx.violation(name, role, f'{why}; natively: {what}', cache['bad'][1])
    for label, rq, want in PARTIAL_REQUEST_BATTERY:
        a = ctx.native.ask({'op': 'conformance', 'schema': SCHEMA, 'partial_request': rq})
        if 'request' not in a or 'input_error' in a['request']:
            return ctx.mismatch(name, f'conformance probe `{label}` failed: {a}')
        for ep, r in a['request'].items():
            if (r == 'ok') != want:
                what = f'`{label}` is {"accepted" if r == "ok" else "rejected"} by {ep} ({r[:120]})'
                cache['bad'] = (what, {'op': 'conformance', 'schema': SCHEMA, 'partial_request': rq, 'expected_accept': want, 'entry_point': ep})
                return ctx.violation(name, role, f'{why}; natively: {what}', cache['bad'][1])
    for label, delta, want in REQUEST_BATTERY:
        rq = dict(REQ)
        rq.update(delta)
        a = ctx.native.ask({'op': 'conformance', 'schema': SCHEMA, 'request': rq})
        if 'request' not in a:
            return ctx.mismatch(name, f'conformance probe `{label}` failed: {a}')
        for ep, r in a['request'].items():
            if ep in ('schemaless_context', 'input_error'):
                return ctx.mismatch(name, f'conformance probe `{label}`: {ep}: {r}')
            if (r == 'ok') != want:
                what = f'request `{label}` is {"accepted" if r == "ok" else "rejected"} by {ep} ({r[:120]})'
                cache['bad'] = (what, {'op': 'conformance', 'schema': SCHEMA, 'request': rq, 'expected_accept': want, 'entry_point': ep})
                return ctx.violation(name, role, f'{why}; natively: {what}', cache['bad'][1])
    return ('unreplayed', f'{why}; but the battery of {len(ENTITY_BATTERY) + len(REQUEST_BATTERY) + len(API_ENTITY_BATTERY) + len(PARTIAL_REQUEST_BATTERY)} single-requirement conformance probes behaves as specified on every entry point')


def battery_selftest(ctx):
    """the battery itself must hold on the tree under test (also a standing native cross-check of the solver-certified tables)"""
    r = battery_replay(ctx, 'native battery', 'entities/conformance.rs + validator/coreschema.rs: schema conformance through the public entry points', 'native conformance battery')
    if r and r[0] == 'unreplayed':
        ctx.note_battery = True
    return r


# ---------------------------------------------------------------------------------------------------------------- request side

def scope_variables(ctx):
    """ValidatorSchema::validate_scope_variables: Ok exactly when every provided component is declared, enumerated ids are among the choices, and
    (with an action) the principal / resource types are among those the action applies to"""
    P = ctx.prog('core')
    f = P.method('validator/coreschema.rs', 'validate_scope_variables', nargs=4, arg0=r'&.*ValidatorSchema$')
    ctx.use(f)
    for present in [(p, a, r) for p in (0, 1) for a in (0, 1) for r in (0, 1)]:
        ex = ctx.new_exec('core')
        ex.havoc_unknown = True
        ex.from_wrappers.add('RequestValidationError')
        uid = {k: Opaque('ast::entity::EntityUID', k) for k in ('principal', 'action', 'resource')}
        ty = {k: Opaque('ast::entity::EntityType', k + ' type') for k in ('principal', 'resource')}
        kindv = {k: Opaque('validator::schema::entity_type::ValidatorEntityTypeKind', k + ' type kind') for k in ('principal', 'resource')}
        et = {k: Agg('struct', 'validator::schema::entity_type::ValidatorEntityType', None, [Opaque('EntityType', 'name'), Opaque('HashSet<EntityType>', 'descendants'), kindv[k], Opaque('Attributes', 'attributes'),
                                                                                               Opaque('Option<Loc>', 'loc')], ('name', 'descendants', 'kind', 'attributes', 'loc')) for k in ('principal', 'resource')}
        aid = Opaque('validator::schema::action::ValidatorActionId', 'schema action')
        DECL = {k: z3.Bool(f'{k}_type_declared') for k in ('principal', 'resource')}
        ENUM_OK = {k: z3.Bool(f'{k}_id_among_choices') for k in ('principal', 'resource')}
        ADECL = z3.Bool('action_declared')
        APPLIES = {k: z3.Bool(f'action_applies_to_{k}_type') for k in ('principal', 'resource')}
        by_uid = {uid[k].id: k for k in uid}
        by_ty = {ty[k].id: k for k in ty}

        def entity_type(ex_, st, c, A):
            k = by_uid.get(ident(ex_, st, A[0]))
            if k not in ty:
                return None          # not the object this stub speaks about: fall through (a body, or an arbitrary value under havoc_unknown)
            return ex_.new_cell(st, ty[k], 'ty')
        ex.stub(r'EntityUID::entity_type$', entity_type, 'EntityUID::entity_type (the type of that component)')

        def get_entity_type(ex_, st, c, A):
            k = by_ty.get(ident(ex_, st, A[1]))
            if k is None:
                return None          # not the object this stub speaks about: fall through (a body, or an arbitrary value under havoc_unknown)
            return [([DECL[k]], some(ex_.new_cell(st, et[k], 'et'))), ([z3.Not(DECL[k])], none())]
        ex.stub(r'ValidatorSchema::get_entity_type$', get_entity_type, 'ValidatorSchema::get_entity_type: declared (its definition) or not, logged')

        def enum_ok(ex_, st, c, A):
            k = by_uid.get(ident(ex_, st, A[1]))
            if k not in ENUM_OK:
                return None          # not the object this stub speaks about: fall through (a body, or an arbitrary value under havoc_unknown)
            return [([ENUM_OK[k]], ok(UNIT)), ([z3.Not(ENUM_OK[k])], err(Opaque('InvalidEnumEntityError', 'bad enum id')))]
        ex.stub(r'(^|::)is_valid_enumerated_entity$', enum_ok, 'is_valid_enumerated_entity(choices, uid): arbitrary verdict, logged (its own obligation below)')

        def get_action_id(ex_, st, c, A):
            if by_uid.get(ident(ex_, st, A[1])) != 'action':
                return None          # not the object this stub speaks about: fall through (a body, or an arbitrary value under havoc_unknown)
            return [([ADECL], some(ex_.new_cell(st, aid, 'aid'))), ([z3.Not(ADECL)], none())]
        ex.stub(r'ValidatorSchema::get_action_id$', get_action_id, 'ValidatorSchema::get_action_id: declared or not')

        def applies(ex_, st, c, A):
            which = 'principal' if 'principal' in c else 'resource'
            k = by_ty.get(ident(ex_, st, A[1]))
            if k != which or ident(ex_, st, A[0]) != aid.id:
                return None          # not the object this stub speaks about: fall through (a body, or an arbitrary value under havoc_unknown)
            return BoolV(APPLIES[which])
        ex.stub(r'ValidatorActionId::is_applicable_(principal|resource)_type$', applies, 'ValidatorActionId::is_applicable_{principal,resource}_type: free boolean, logged')
        ex.stub(r'as Iterator>::(cloned|collect)::<|ValidatorActionId::applies_to_(principals|resources)$', lambda ex_, st, c, A: Opaque('iter', 'valid types (error payload)'), 'valid types listed in the error (payload only)')
        args = [Ref(0, ('local', 'S'))] + [some(Ref(0, ('local', k))) if present[i] else none() for i, k in enumerate(('principal', 'action', 'resource'))]
        outs = ex.run(f, args, heap={'S': Opaque('validator::schema::ValidatorSchema', 'schema'), **uid})
        ctx.absorb(ex)
        tagk = ''.join(str(b) for b in present)
        nm = f'validate_scope_variables[present p/a/r={tagk}]'
        ctx.panic_summary(nm, outs, ex)
        rets = [o for o in outs if o.kind == 'ret']
        for i, o in enumerate(rets):
            kind = {k: ex.is_variant(kindv[k], 'Enum') for k in ('principal', 'resource')}
            req = []
            p_i = {'principal': 0, 'resource': 2}
            for k in ('principal', 'resource'):
                if present[p_i[k]]:
                    req.append(z3.And(DECL[k], z3.Implies(kind[k], ENUM_OK[k])))
            if present[1]:
                req.append(ADECL)
                for k in ('principal', 'resource'):
                    if present[p_i[k]]:
                        req.append(APPLIES[k])
            want_ok = z3.And(req) if req else T
            is_ok = o.val.variant == 'Ok'
            ctx.decide(f'{nm}/path{i}', o.pc + [z3.Not(z3.BoolVal(is_ok) == want_ok)], ex=ex,
                       sample={'path_condition': [str(c)[:70] for c in o.pc][:6], 'result': 'Ok' if is_ok else 'Err(' + err_class(o.val.fields[0]) + ')'} if i < 2 else None,
                       on_sat=lambda m, nm=nm: battery_replay(ctx, nm, 'validator/coreschema.rs: ValidatorSchema::validate_scope_variables', 'request scope validation deviates from the conformance table'))
        ctx.decide(f'{nm}/paths-cover', [z3.Not(pcs(rets))], ex=ex)
        ctx.decide(f'{nm}/witness-accept', [pcs([o for o in rets if o.val.variant == 'Ok'])], expect='sat', ex=ex)
        if any(present):
            ctx.decide(f'{nm}/witness-reject', [pcs([o for o in rets if o.val.variant == 'Err'])], expect='sat', ex=ex)


def request_entry(ctx):
    """ValidatorSchema::validate_request: scope variables of THIS request are validated, then (when both are present) its context against its action"""
    P = ctx.prog('core')
    f = P.method('validator/coreschema.rs', 'validate_request', nargs=3, arg0=r'&.*ValidatorSchema$')
    ctx.use(f)
    ex = ctx.new_exec('core')
    ex.havoc_unknown = True
    ex.from_wrappers.add('RequestValidationError')
    entry = {k: Opaque('ast::request::EntityUIDEntry', k + ' entry') for k in ('principal', 'action', 'resource')}
    uid = {k: Opaque('ast::entity::EntityUID', k) for k in entry}
    HAS = {k: z3.Bool(f'{k}_known') for k in entry}
    HASCTX = z3.Bool('context_known')
    SCOPE_OK, CTX_OK = z3.Bool('scope_variables_ok'), z3.Bool('context_ok')
    cx = Opaque('ast::request::Context', 'context')
    by_entry = {entry[k].id: k for k in entry}
    ex.stub(r'Request::(principal|action|resource)$', lambda ex_, st, c, A: ex_.new_cell(st, entry[c.rsplit('::', 1)[1]], 'entry'), 'Request::{principal,action,resource}')

    def uid_of(ex_, st, c, A):
        k = by_entry.get(ident(ex_, st, A[0]))
        if k is None:
            return None          # not the object this stub speaks about: fall through (a body, or an arbitrary value under havoc_unknown)
        return [([HAS[k]], some(ex_.new_cell(st, uid[k], 'uid'))), ([z3.Not(HAS[k])], none())]
    ex.stub(r'EntityUIDEntry::uid$', uid_of, 'EntityUIDEntry::uid: known (the uid) or unknown')
    ex.stub(r'Request::context$', lambda ex_, st, c, A: [([HASCTX], some(ex_.new_cell(st, cx, 'cx'))), ([z3.Not(HASCTX)], none())], 'Request::context: known or unknown')
    ex.stub(r'RequestSchema>::validate_scope_variables$', lambda ex_, st, c, A: [([SCOPE_OK], ok(UNIT)), ([z3.Not(SCOPE_OK)], err(Opaque('RequestValidationError', 'scope error')))],
            'validate_scope_variables: arbitrary verdict, logged (own obligation)')
    ex.stub(r'RequestSchema>::validate_context$', lambda ex_, st, c, A: [([CTX_OK], ok(UNIT)), ([z3.Not(CTX_OK)], err(Opaque('RequestValidationError', 'context error')))],
            'validate_context: arbitrary verdict, logged (own obligation)')
    outs = ex.run(f, [Ref(0, ('local', 'S')), Ref(0, ('local', 'RQ')), Ref(0, ('local', 'EXT'))],
                  heap={'S': Opaque('validator::schema::ValidatorSchema', 'schema'), 'RQ': Opaque('ast::request::Request', 'request'), 'EXT': Opaque('Extensions', 'extensions')})
    ctx.absorb(ex)
    nm = 'validate_request'
    ctx.panic_summary(nm, outs, ex)
    rets = [o for o in outs if o.kind == 'ret']

    def opt_uid(o, v):
        """('some', component) | ('none',) for an Option<&EntityUID> argument"""
        if isinstance(v, Agg) and v.variant == 'None':
            return ('none',)
        if isinstance(v, Agg) and v.variant == 'Some':
            k = {uid[x].id: x for x in uid}.get(ident(ex, o.st, v.fields[0]))
            return ('some', k)
        return ('?', repr(v)[:40])
    for i, o in enumerate(rets):
        is_ok = o.val.variant == 'Ok'
        sv = [c for c in o.log if c.tag.startswith('validate_scope_variables')]
        vc = [c for c in o.log if c.tag.startswith('validate_context')]
        wiring = len(sv) == 1
        cond = []
        if wiring:
            got = [opt_uid(o, a) for a in sv[0].args[1:4]]
            for k, g in zip(('principal', 'action', 'resource'), got):
                # the component handed over is this request's component exactly when it is known
                cond.append(z3.If(HAS[k], z3.BoolVal(g == ('some', k)), z3.BoolVal(g == ('none',))))
        ctx_checked = z3.BoolVal(len(vc) == 1)
        if len(vc) == 1:
            wiring = wiring and ident(ex, o.st, vc[0].args[1]) == cx.id and ident(ex, o.st, vc[0].args[2]) == uid['action'].id
        want_ok = z3.And(SCOPE_OK, z3.Implies(z3.And(HASCTX, HAS['action']), CTX_OK))
        claims = [z3.BoolVal(bool(wiring)), z3.BoolVal(is_ok) == want_ok, z3.Implies(z3.And(SCOPE_OK, HASCTX, HAS['action']), ctx_checked)] + cond
        ctx.decide(f'{nm}/path{i}', o.pc + [z3.Not(z3.And(claims))], ex=ex,
                   sample={'path_condition': [str(c)[:60] for c in o.pc][:6], 'result': 'Ok' if is_ok else 'Err', 'calls': [c.tag[:40] for c in o.log if 'validate_' in c.tag]} if i < 3 else None,
                   on_sat=lambda m: battery_replay(ctx, nm, 'validator/coreschema.rs: ValidatorSchema::validate_request', 'request validation does not check what it must'))
    ctx.decide(f'{nm}/paths-cover', [z3.Not(pcs(rets))], ex=ex)
    ctx.decide(f'{nm}/witness-accept', [pcs([o for o in rets if o.val.variant == 'Ok'])], expect='sat', ex=ex)
    ctx.decide(f'{nm}/witness-reject', [pcs([o for o in rets if o.val.variant == 'Err'])], expect='sat', ex=ex)


def context_check(ctx):
    """ValidatorSchema::validate_context: Ok exactly when the action is declared, every entity uid inside the context is valid, and the context has the action's context type"""
    P = ctx.prog('core')
    f = P.method('validator/coreschema.rs', 'validate_context', nargs=4, arg0=r'&.*ValidatorSchema$')
    ctx.use(f)
    ex = ctx.new_exec('core')
    ex.havoc_unknown = True
    ex.from_wrappers.add('RequestValidationError')
    ADECL, TYPED, TCERR = z3.Bool('action_declared'), z3.Bool('context_has_the_declared_type'), z3.Bool('extension_lookup_error')
    EUID = z3.Int('euids_in_context')        # 0 ok, 1 invalid enum id, 2 undeclared action
    ex.invariants.append(z3.And(EUID >= 0, EUID <= 2))
    cx, act = Opaque('ast::request::Context', 'context'), Opaque('ast::entity::EntityUID', 'action')
    aid, cty = Opaque('validator::schema::action::ValidatorActionId', 'schema action'), Opaque('validator::types::Type', 'declared context type')
    pv = Opaque('ast::partial_value::PartialValue', 'context as a value')

    def get_action_id(ex_, st, c, A):
        if ident(ex_, st, A[1]) != act.id:
            return None          # not the object this stub speaks about: fall through (a body, or an arbitrary value under havoc_unknown)
        return [([ADECL], some(ex_.new_cell(st, aid, 'aid'))), ([z3.Not(ADECL)], none())]
    ex.stub(r'ValidatorSchema::get_action_id$', get_action_id, 'ValidatorSchema::get_action_id: declared or not')
    ex.stub(r'<.*PartialValue as From<.*Context>>::from$|<.*Context as Into<.*PartialValue>>::into$', lambda ex_, st, c, A: pv if ident(ex_, st, A[0]) == cx.id else Opaque('PartialValue', 'of something else'),
            'PartialValue::from(context)')
    ex.stub(r'CoreSchema::<.*>::new$|CoreSchema::new$', lambda ex_, st, c, A: Agg('struct', '~CoreSchema', None, [A[0]]), 'CoreSchema::new (term)')

    def euids(ex_, st, c, A):
        if ident(ex_, st, A[1]) != pv.id:
            return None          # not the object this stub speaks about: fall through (a body, or an arbitrary value under havoc_unknown)
        VE = 'entities::conformance::ValidateEuidError'
        return [([EUID == 0], ok(UNIT)), ([EUID == 1], err(Agg('variant', VE, 'InvalidEnumEntity', [Opaque('InvalidEnumEntityError', 'e')]))),
                ([EUID == 2], err(Agg('variant', VE, 'UndeclaredAction', [Opaque('entities::conformance::err::UndeclaredAction', 'e')])))]
    ex.stub(r'(^|::)validate_euids_in_partial_value::<', euids, 'validate_euids_in_partial_value(context): ok | invalid enum id | undeclared action (own obligation)')
    ex.stub(r'ValidatorActionId::context_type$', lambda ex_, st, c, A: ex_.new_cell(st, cty, 'cty') if ident(ex_, st, A[0]) == aid.id else Opaque('x', 'wrong'), 'ValidatorActionId::context_type')

    def tpv(ex_, st, c, A):
        if ident(ex_, st, A[0]) != cty.id or ident(ex_, st, A[1]) != pv.id:
            return None          # not the object this stub speaks about: fall through (a body, or an arbitrary value under havoc_unknown)
        return [([z3.Not(TCERR), TYPED], ok(BoolV(T))), ([z3.Not(TCERR), z3.Not(TYPED)], ok(BoolV(F))), ([TCERR], err(Opaque('ExtensionFunctionLookupError', 'e')))]
    ex.stub(r'Type::typecheck_partial_value$', tpv, 'Type::typecheck_partial_value(context type, context): Ok(true) | Ok(false) | Err (own obligations per type kind)')
    outs = ex.run(f, [Ref(0, ('local', 'S')), Ref(0, ('local', 'CX')), Ref(0, ('local', 'ACT')), Ref(0, ('local', 'EXT'))],
                  heap={'S': Opaque('validator::schema::ValidatorSchema', 'schema'), 'CX': cx, 'ACT': act, 'EXT': Opaque('Extensions', 'extensions')})
    ctx.absorb(ex)
    nm = 'validate_context'
    ctx.panic_summary(nm, outs, ex)
    rets = [o for o in outs if o.kind == 'ret']
    for i, o in enumerate(rets):
        is_ok = o.val.variant == 'Ok'
        want_ok = z3.And(ADECL, EUID == 0, z3.Not(TCERR), TYPED)
        ctx.decide(f'{nm}/path{i}', o.pc + [z3.Not(z3.BoolVal(is_ok) == want_ok)], ex=ex,
                   sample={'path_condition': [str(c)[:60] for c in o.pc][:6], 'result': 'Ok' if is_ok else 'Err(' + err_class(o.val.fields[0]) + ')'} if i < 3 else None,
                   on_sat=lambda m: battery_replay(ctx, nm, 'validator/coreschema.rs: ValidatorSchema::validate_context', 'context validation deviates from the conformance table'))
    ctx.decide(f'{nm}/paths-cover', [z3.Not(pcs(rets))], ex=ex)
    ctx.decide(f'{nm}/witness-accept', [pcs([o for o in rets if o.val.variant == 'Ok'])], expect='sat', ex=ex)
    ctx.decide(f'{nm}/witness-reject', [pcs([o for o in rets if o.val.variant == 'Err'])], expect='sat', ex=ex)


# ---------------------------------------------------------------------------------------------------------------- entity side

def enumerated(ctx):
    """is_valid_enumerated_entity(choices, uid): Ok exactly when the id equals one of the declared choices (1..3 choices)"""
    P = ctx.prog('core')
    f = P.method('entities/conformance.rs', 'is_valid_enumerated_entity', nargs=2)
    ctx.use(f)
    for n in (1, 2, 3):
        ex = ctx.new_exec('core')
        ex.havoc_unknown = True
        choices = [Opaque('ast::entity::Eid', f'choice{i}') for i in range(n)]
        EQ = [z3.Bool(f'id_equals_choice{i}') for i in range(n)]
        uid = Opaque('ast::entity::EntityUID', 'uid')
        eid = Opaque('ast::entity::Eid', 'the id')
        ne = Opaque('nonempty::NonEmpty<Eid>', 'choices')
        ex.stub(r'NonEmpty::<.*>::iter$', lambda ex_, st, c, A: Agg('struct', '~vec_iter', None, [ex_.new_cell(st, ch, 'choice') for ch in choices]), 'NonEmpty::iter: the declared choices in order')
        ex.stub(r'EntityUID::eid$', lambda ex_, st, c, A: ex_.new_cell(st, eid, 'eid') if ident(ex_, st, A[0]) == uid.id else Opaque('x', 'wrong uid'), 'EntityUID::eid')

        def eid_eq(ex_, st, c, A):
            a, b = ident(ex_, st, A[0]), ident(ex_, st, A[1])
            other = b if a == eid.id else a if b == eid.id else None
            idx = {ch.id: i for i, ch in enumerate(choices)}.get(other)
            if idx is None:
                return None          # not the object this stub speaks about: fall through (a body, or an arbitrary value under havoc_unknown)
            return BoolV(EQ[idx])
        ex.stub(r'<&?[\w:]*Eid as PartialEq(<.*>)?>::eq$', eid_eq, 'Eid equality with choice i: free boolean')
        ex.stub(r'NonEmpty<.*> as Clone>::clone$', lambda ex_, st, c, A: Opaque('NonEmpty<Eid>', 'choices (error payload)'), 'choices cloned into the error')
        outs = ex.run(f, [Ref(0, ('local', 'CH')), Ref(0, ('local', 'UID'))], heap={'CH': ne, 'UID': uid})
        ctx.absorb(ex)
        nm = f'is_valid_enumerated_entity[{n} choices]'
        ctx.panic_summary(nm, outs, ex)
        rets = [o for o in outs if o.kind == 'ret']
        for i, o in enumerate(rets):
            is_ok = o.val.variant == 'Ok'
            ctx.decide(f'{nm}/path{i}', o.pc + [z3.Not(z3.BoolVal(is_ok) == z3.Or(EQ))], ex=ex, sample={'path_condition': [str(c) for c in o.pc], 'result': o.val.variant} if i < 2 and n == 2 else None,
                       on_sat=lambda m, nm=nm: battery_replay(ctx, nm, 'entities/conformance.rs: is_valid_enumerated_entity', 'enumerated-id check deviates from `id is one of the declared choices`'))
        ctx.decide(f'{nm}/paths-cover', [z3.Not(pcs(rets))], ex=ex)
        ctx.decide(f'{nm}/witness-accept', [pcs([o for o in rets if o.val.variant == 'Ok'])], expect='sat', ex=ex)
        ctx.decide(f'{nm}/witness-reject', [pcs([o for o in rets if o.val.variant == 'Err'])], expect='sat', ex=ex)


ESCE = r'EntitySchemaConformanceError::(\w+)(::<.*>)?$'


def entity_exec(ctx):
    ex = ctx.new_exec('core')
    ex.havoc_unknown = True       # callees this module does not know (e.g. introduced by a change) return arbitrary values; the native battery decides
    for w in ('EntitySchemaConformanceError', 'InvalidEnumEntity', 'ValidateEuidError', 'TypecheckError'):
        ex.from_wrappers.add(w)
    import re as _re
    ex.stub(ESCE, lambda ex_, st, c, A: Agg('struct', '~error:' + _re.search(ESCE, c).group(1), None, list(A)), 'EntitySchemaConformanceError constructors (class + arguments)')
    ex.stub(r'<(smol_str::)?SmolStr as Deref>::deref$|SmolStr::as_str$', lambda ex_, st, c, A: A[0], 'SmolStr as str (the string itself)')
    ex.stub(r'<&?(smol_str::)?SmolStr as (ToString|Clone)>::(to_string|clone)$', lambda ex_, st, c, A: res(ex_, st, A[0]), 'SmolStr clone / to_string (the string itself)')
    return ex


def decide_paths(ctx, ex, nm, outs, want_ok, role, why, extra=None, sample_n=2, can_accept=True):
    ctx.panic_summary(nm, outs, ex)
    rets = [o for o in outs if o.kind == 'ret']
    for i, o in enumerate(rets):
        is_ok = o.val.variant == 'Ok'
        claims = [z3.BoolVal(is_ok) == want_ok] + (extra(o) if extra else [])
        ctx.decide(f'{nm}/path{i}', o.pc + [z3.Not(z3.And(claims))], ex=ex,
                   sample={'path_condition': [str(c)[:70] for c in o.pc][:8], 'result': 'Ok' if is_ok else 'Err(' + err_class(o.val.fields[0]) + ')'} if i < sample_n else None,
                   on_sat=lambda m: battery_replay(ctx, nm, role, why))
    ctx.decide(f'{nm}/paths-cover', [z3.Not(pcs(rets))], ex=ex)
    if can_accept:
        ctx.decide(f'{nm}/witness-accept', [pcs([o for o in rets if o.val.variant == 'Ok'])], expect='sat', ex=ex)
    return rets


def witnesses(ctx, ex, nm, outs, want):
    """reachability witnesses for whichever verdicts the specification allows"""
    rets = [o for o in outs if o.kind == 'ret']
    for verdict, cond in (('accept', want), ('reject', z3.Not(want))):
        sv = z3.Solver()
        sv.add(*ex.invariants)
        sv.add(cond)
        if sv.check() == z3.sat:
            ctx.decide(f'{nm}/witness-{verdict}', [pcs([o for o in rets if (o.val.variant == 'Ok') == (verdict == 'accept')])], expect='sat', ex=ex)


def euid_verdict(E):
    VE = 'entities::conformance::ValidateEuidError'
    return [([E == 0], ok(UNIT)), ([E == 1], err(Agg('variant', VE, 'InvalidEnumEntity', [Opaque('InvalidEnumEntityError', 'e')]))),
            ([E == 2], err(Agg('variant', VE, 'UndeclaredAction', [Opaque('entities::conformance::err::UndeclaredAction', 'e')])))]


def euid_check(ctx):
    """validate_euid: Ok exactly when (the type is declared as an enumeration => the id is among its choices) and (the type is an action type => the action is declared)"""
    P = ctx.prog('core')
    f = P.method('entities/conformance.rs', 'validate_euid', nargs=2)
    ctx.use(f)
    ex = entity_exec(ctx)
    uid, ty = Opaque('ast::entity::EntityUID', 'uid'), Opaque('ast::entity::EntityType', 'its type')
    desc, choices = Opaque('EntityTypeDescription', 'schema description'), Opaque('nonempty::NonEmpty<Eid>', 'choices')
    DECL, ENUM, ENUM_OK, ISACT, ACTDECL = (z3.Bool(n) for n in ('type_declared', 'type_is_enumerated', 'id_among_choices', 'type_is_action', 'action_declared'))
    ex.stub(r'EntityUID::entity_type$', lambda ex_, st, c, A: ex_.new_cell(st, ty, 'ty') if ident(ex_, st, A[0]) == uid.id else Opaque('x', 'wrong'), 'EntityUID::entity_type')
    ex.stub(r' as (entities::json::schema::)?Schema>::entity_type$', lambda ex_, st, c, A: [([DECL], some(desc)), ([z3.Not(DECL)], none())] if ident(ex_, st, A[1]) == ty.id else Opaque('x', 'wrong'),
            'Schema::entity_type: declared (description) or not')
    ex.stub(r'EntityTypeDescription>::enum_entity_eids$', lambda ex_, st, c, A: [([ENUM], some(ex_.new_cell(st, choices, 'ch'))), ([z3.Not(ENUM)], none())], 'EntityTypeDescription::enum_entity_eids: enumerated (choices) or not')

    def enum_ok(ex_, st, c, A):
        if ident(ex_, st, A[0]) != choices.id or ident(ex_, st, A[1]) != uid.id:
            return None          # not the object this stub speaks about: fall through (a body, or an arbitrary value under havoc_unknown)
        return [([ENUM_OK], ok(UNIT)), ([z3.Not(ENUM_OK)], err(Opaque('InvalidEnumEntityError', 'bad enum id')))]
    ex.stub(r'(^|::)is_valid_enumerated_entity$', enum_ok, 'is_valid_enumerated_entity(choices of that type, uid): arbitrary verdict (own obligation)')
    ex.stub(r'EntityType::is_action$', lambda ex_, st, c, A: BoolV(ISACT) if ident(ex_, st, A[0]) == ty.id else BoolV(z3.Bool('is_action_of_something_else')), 'EntityType::is_action: free boolean')
    ex.stub(r' as (entities::json::schema::)?Schema>::action$', lambda ex_, st, c, A: [([ACTDECL], some(Opaque('Arc<Entity>', 'schema action'))), ([z3.Not(ACTDECL)], none())] if ident(ex_, st, A[1]) == uid.id else Opaque('x', 'wrong'),
            'Schema::action: declared or not')
    outs = ex.run(f, [Ref(0, ('local', 'S')), Ref(0, ('local', 'UID'))], heap={'S': Opaque('S', 'schema'), 'UID': uid})
    ctx.absorb(ex)
    want = z3.And(z3.Implies(z3.And(DECL, ENUM), ENUM_OK), z3.Implies(ISACT, ACTDECL))
    rets = decide_paths(ctx, ex, 'validate_euid', outs, want, 'entities/conformance.rs: validate_euid', 'entity-uid validation deviates from the conformance table')
    ctx.decide('validate_euid/witness-reject', [pcs([o for o in rets if o.val.variant == 'Err'])], expect='sat', ex=ex)


def action_check(ctx):
    """validate_action: Ok exactly when the action is declared and deep-equal to the schema's definition"""
    P = ctx.prog('core')
    f = P.method('entities/conformance.rs', 'validate_action', nargs=2)
    ctx.use(f)
    ex = entity_exec(ctx)
    ent_, uid, sact = Opaque('ast::entity::Entity', 'action entity'), Opaque('ast::entity::EntityUID', 'uid'), Opaque('ast::entity::Entity', 'schema definition')
    DECL, SAME = z3.Bool('action_declared'), z3.Bool('deep_equal_to_schema_definition')
    ex.stub(r'Entity::uid$', lambda ex_, st, c, A: ex_.new_cell(st, uid, 'uid') if ident(ex_, st, A[0]) == ent_.id else Opaque('x', 'wrong'), 'Entity::uid')
    ex.stub(r' as (entities::json::schema::)?Schema>::action$', lambda ex_, st, c, A: [([DECL], some(Agg('struct', 'Arc', None, [sact], ('inner',)))), ([z3.Not(DECL)], none())] if ident(ex_, st, A[1]) == uid.id else Opaque('x', 'wrong'),
            'Schema::action: declared (definition) or not')

    def deep_eq(ex_, st, c, A):
        if {ident(ex_, st, A[0]), ident(ex_, st, A[1])} != {ent_.id, sact.id}:
            return None          # not the object this stub speaks about: fall through (a body, or an arbitrary value under havoc_unknown)
        return BoolV(SAME)
    ex.stub(r'Entity::deep_eq$', deep_eq, 'Entity::deep_eq(action, schema definition): free boolean')
    chk = Agg('struct', 'EntitySchemaConformanceChecker', None, [Ref(0, ('local', 'S')), Ref(0, ('local', 'EXT'))], ('schema', 'extensions'))
    outs = ex.run(f, [Ref(0, ('local', 'CHK')), Ref(0, ('local', 'E'))], heap={'S': Opaque('S', 'schema'), 'EXT': Opaque('Extensions', 'ext'), 'CHK': chk, 'E': ent_})
    ctx.absorb(ex)
    rets = decide_paths(ctx, ex, 'validate_action', outs, z3.And(DECL, SAME), 'entities/conformance.rs: validate_action', 'action validation deviates from `declared and identical to the schema definition`')
    ctx.decide('validate_action/witness-reject', [pcs([o for o in rets if o.val.variant == 'Err'])], expect='sat', ex=ex)


def entity_entry(ctx):
    """validate_entity: actions go to validate_action; every other entity must have a declared type, a valid uid, and conformant attributes, ancestors and tags - each
    checked on THIS entity's components against THIS type's description"""
    P = ctx.prog('core')
    f = P.method('entities/conformance.rs', 'validate_entity', nargs=2)
    ctx.use(f)
    ex = entity_exec(ctx)
    ent_, uid, ty, desc = Opaque('ast::entity::Entity', 'entity'), Opaque('ast::entity::EntityUID', 'uid'), Opaque('ast::entity::EntityType', 'type'), Opaque('EntityTypeDescription', 'description')
    B = {n: z3.Bool(n) for n in ('is_action', 'action_ok', 'type_declared', 'uid_ok', 'attributes_ok', 'ancestors_ok', 'tags_ok')}
    ex.stub(r'Entity::uid$', lambda ex_, st, c, A: ex_.new_cell(st, uid, 'uid') if ident(ex_, st, A[0]) == ent_.id else Opaque('x', 'wrong'), 'Entity::uid')
    ex.stub(r'EntityUID::entity_type$', lambda ex_, st, c, A: ex_.new_cell(st, ty, 'ty') if ident(ex_, st, A[0]) == uid.id else Opaque('x', 'wrong'), 'EntityUID::entity_type')
    ex.stub(r'EntityType::is_action$', lambda ex_, st, c, A: BoolV(B['is_action']) if ident(ex_, st, A[0]) == ty.id else BoolV(z3.Bool('other_is_action')), 'EntityType::is_action: free boolean')
    ex.stub(r' as (entities::json::schema::)?Schema>::entity_type$', lambda ex_, st, c, A: [([B['type_declared']], some(desc)), ([z3.Not(B['type_declared'])], none())] if ident(ex_, st, A[1]) == ty.id else Opaque('x', 'wrong'),
            'Schema::entity_type: declared (description) or not')
    ex.stub(r'EntitySchemaConformanceError::unexpected_entity_type::<', lambda ex_, st, c, A: Agg('struct', '~error:unexpected_entity_type', None, list(A)), 'unexpected_entity_type constructor')
    for comp in ('attrs', 'ancestors', 'tags'):
        ex.stub(rf'Entity::{comp}$', lambda ex_, st, c, A, comp=comp: Agg('struct', '~' + comp, None, [res(ex_, st, A[0])]), f'Entity::{comp} (term)')

    def verdict(name, bit):
        return lambda ex_, st, c, A: [([B[bit]], ok(UNIT)), ([z3.Not(B[bit])], err(Opaque('EntitySchemaConformanceError' if name != 'validate_euid' else 'entities::conformance::ValidateEuidError', name + ' error')))]
    ex.stub(r'::validate_action$', verdict('validate_action', 'action_ok'), 'validate_action: arbitrary verdict, logged (own obligation)')
    ex.stub(r'(^|::)validate_euid::<', verdict('validate_euid', 'uid_ok'), 'validate_euid: arbitrary verdict, logged (own obligation)')
    ex.stub(r'::validate_entity_attributes::<', verdict('validate_entity_attributes', 'attributes_ok'), 'validate_entity_attributes: arbitrary verdict, logged (own obligation)')
    ex.stub(r'::validate_entity_ancestors::<', verdict('validate_entity_ancestors', 'ancestors_ok'), 'validate_entity_ancestors: arbitrary verdict, logged (own obligation)')
    ex.stub(r'::validate_tags::<', verdict('validate_tags', 'tags_ok'), 'validate_tags: arbitrary verdict, logged (own obligation)')
    chk = Agg('struct', 'EntitySchemaConformanceChecker', None, [Ref(0, ('local', 'S')), Ref(0, ('local', 'EXT'))], ('schema', 'extensions'))
    outs = ex.run(f, [Ref(0, ('local', 'CHK')), Ref(0, ('local', 'E'))], heap={'S': Opaque('S', 'schema'), 'EXT': Opaque('Extensions', 'ext'), 'CHK': chk, 'E': ent_})
    ctx.absorb(ex)
    want = z3.If(B['is_action'], B['action_ok'], z3.And(B['type_declared'], B['uid_ok'], B['attributes_ok'], B['ancestors_ok'], B['tags_ok']))

    def extra(o):
        """every sub-check that ran was handed this entity's component and this type's description"""
        good = True
        for c in o.log:
            if c.tag.startswith('validate_action'):
                good = good and ident(ex, o.st, c.args[1]) == ent_.id
            elif c.tag.startswith('validate_euid'):
                good = good and ident(ex, o.st, c.args[1]) == uid.id
            else:
                for nm_, comp in (('validate_entity_attributes', '~attrs'), ('validate_entity_ancestors', '~ancestors'), ('validate_tags', '~tags')):
                    if c.tag.startswith(nm_ + ':'):
                        it = c.args[2]
                        good = good and ident(ex, o.st, c.args[1]) == uid.id and isinstance(it, Agg) and it.name == comp and getattr(it.fields[0], 'id', None) == ent_.id \
                            and ident(ex, o.st, c.args[3]) == desc.id
        ran = {c.tag.split(':')[0] for c in o.log if c.tag.startswith('validate_')}
        need = z3.Implies(z3.And(z3.Not(B['is_action']), B['type_declared'], B['uid_ok'], B['attributes_ok'], B['ancestors_ok']),
                          z3.BoolVal({'validate_euid', 'validate_entity_attributes', 'validate_entity_ancestors', 'validate_tags'} <= ran))
        return [z3.BoolVal(bool(good)), need, z3.Implies(B['is_action'], z3.BoolVal('validate_action' in ran))]
    rets = decide_paths(ctx, ex, 'validate_entity', outs, want, 'entities/conformance.rs: EntitySchemaConformanceChecker::validate_entity', 'entity validation skips or mis-wires a requirement', extra=extra, sample_n=3)
    ctx.decide('validate_entity/witness-reject', [pcs([o for o in rets if o.val.variant == 'Err'])], expect='sat', ex=ex)


def ancestors_check(ctx):
    """validate_entity_ancestors over 0, 1, 2 ancestors: Ok exactly when every ancestor uid is valid and every ancestor type is among the (transitively closed) allowed parent types"""
    P = ctx.prog('core')
    f = P.method('entities/conformance.rs', 'validate_entity_ancestors', nargs=4)
    ctx.use(f)
    for n in (0, 1, 2):
        ex = entity_exec(ctx)
        anc = [Opaque('ast::entity::EntityUID', f'ancestor{i}') for i in range(n)]
        aty = [Opaque('ast::entity::EntityType', f'ancestor{i} type') for i in range(n)]
        EU = [z3.Int(f'ancestor{i}_uid_verdict') for i in range(n)]
        ALLOWED = [z3.Bool(f'ancestor{i}_type_allowed') for i in range(n)]
        ex.invariants += [z3.And(e >= 0, e <= 2) for e in EU]
        desc, allowed = Opaque('EntityTypeDescription', 'description'), Opaque('HashSet<EntityType>', 'allowed parent types')
        idx_u, idx_t = {a.id: i for i, a in enumerate(anc)}, {t.id: i for i, t in enumerate(aty)}

        def veuid(ex_, st, c, A):
            i = idx_u.get(ident(ex_, st, A[1]))
            if i is None:
                return None          # not the object this stub speaks about: fall through (a body, or an arbitrary value under havoc_unknown)
            return euid_verdict(EU[i])
        ex.stub(r'(^|::)validate_euid::<', veuid, 'validate_euid(ancestor i): ok | invalid enum id | undeclared action, logged')

        def etype(ex_, st, c, A):
            i = idx_u.get(ident(ex_, st, A[0]))
            if i is None:
                return None          # not the object this stub speaks about: fall through (a body, or an arbitrary value under havoc_unknown)
            return ex_.new_cell(st, aty[i], 'aty')
        ex.stub(r'EntityUID::entity_type$', etype, 'EntityUID::entity_type (type of ancestor i)')
        ex.stub(r'EntityTypeDescription>::allowed_parent_types$', lambda ex_, st, c, A: Agg('struct', 'Arc', None, [allowed], ('inner',)) if ident(ex_, st, A[0]) == desc.id else Opaque('x', 'wrong'),
                'EntityTypeDescription::allowed_parent_types (of THIS type)')

        def contains(ex_, st, c, A):
            i = idx_t.get(ident(ex_, st, A[1]))
            if i is None or ident(ex_, st, A[0]) != allowed.id:
                return None          # not the object this stub speaks about: fall through (a body, or an arbitrary value under havoc_unknown)
            return BoolV(ALLOWED[i])
        ex.stub(r'HashSet::<.*EntityType>::contains::<', contains, 'allowed_parent_types.contains(type of ancestor i): free boolean, logged')
        chk = Agg('struct', 'EntitySchemaConformanceChecker', None, [Ref(0, ('local', 'S')), Ref(0, ('local', 'EXT'))], ('schema', 'extensions'))
        heap = {'S': Opaque('S', 'schema'), 'EXT': Opaque('Extensions', 'ext'), 'CHK': chk, 'UID': Opaque('ast::entity::EntityUID', 'uid'), 'D': desc, **{f'A{i}': a for i, a in enumerate(anc)}}
        it = Agg('struct', '~vec_iter', None, [Ref(0, ('local', f'A{i}')) for i in range(n)])
        outs = ex.run(f, [Ref(0, ('local', 'CHK')), Ref(0, ('local', 'UID')), it, Ref(0, ('local', 'D'))], heap=heap)
        ctx.absorb(ex)
        want = z3.And([z3.And(EU[i] == 0, ALLOWED[i]) for i in range(n)]) if n else T
        nm = f'validate_entity_ancestors[{n} ancestors]'
        rets = decide_paths(ctx, ex, nm, outs, want, 'entities/conformance.rs: validate_entity_ancestors', 'ancestor validation deviates from `every ancestor valid and of a permitted type`')
        if n:
            ctx.decide(f'{nm}/witness-reject', [pcs([o for o in rets if o.val.variant == 'Err'])], expect='sat', ex=ex)


def _kv_setup(ctx, ex, n, what):
    """n (key, value) pairs of an entity component, with typecheck / euid verdict stubs keyed by the value"""
    from ..models import key_id
    keys = [Opaque('smol_str::SmolStr', f'{what}{j} name') for j in range(n)]
    vals = [Opaque('ast::partial_value::PartialValue', f'{what}{j} value') for j in range(n)]
    tys = [Opaque('entities::json::schema_types::SchemaType', f'declared type of {what}{j}') for j in range(n)]
    TC = [z3.Int(f'{what}{j}_typecheck') for j in range(n)]        # 0 ok, 1 type mismatch, 2 extension function lookup error
    EU = [z3.Int(f'{what}{j}_euids') for j in range(n)]
    ex.invariants += [z3.And(t >= 0, t <= 2) for t in TC + EU]
    if n == 2:
        ex.invariants.append(key_id(keys[0]) != key_id(keys[1]))      # keys of one map are distinct
    vidx = {v.id: j for j, v in enumerate(vals)}

    def tc(ex_, st, c, A):
        j = vidx.get(ident(ex_, st, A[0]))
        if j is None:
            return None          # not the object this stub speaks about: fall through (a body, or an arbitrary value under havoc_unknown)
        ty_id = ident(ex_, st, A[1])
        if ty_id not in {t.id for t in tys} | {getattr(ex_, '_tag_ty_id', None)}:
            return None          # not the object this stub speaks about: fall through (a body, or an arbitrary value under havoc_unknown)
        TE = 'entities::conformance::TypecheckError'
        r = [([TC[j] == 0], ok(UNIT)), ([TC[j] == 1], err(Agg('variant', TE, 'TypeMismatch', [Opaque('TypeMismatchError', 'e')]))),
             ([TC[j] == 2], err(Agg('variant', TE, 'ExtensionFunctionLookup', [Opaque('ExtensionFunctionLookupError', 'e')])))]
        st.notes.setdefault('tc_against', {})[j] = ty_id
        return r
    ex.stub(r'(^|::)typecheck_value_against_schematype$', tc, 'typecheck_value_against_schematype(value j, declared type): ok | type mismatch | extension lookup error, logged (own obligations per type kind)')

    def eu(ex_, st, c, A):
        j = vidx.get(ident(ex_, st, A[1]))
        if j is None:
            return None          # not the object this stub speaks about: fall through (a body, or an arbitrary value under havoc_unknown)
        return euid_verdict(EU[j])
    ex.stub(r'(^|::)validate_euids_in_partial_value::<', eu, 'validate_euids_in_partial_value(value j): ok | invalid enum id | undeclared action, logged (own obligation)')
    heap = {}
    for j in range(n):
        heap[f'K{j}'], heap[f'V{j}'] = keys[j], vals[j]
    it = Agg('struct', '~vec_iter', None, [Agg('tuple', None, None, [Ref(0, ('local', f'K{j}')), Ref(0, ('local', f'V{j}'))]) for j in range(n)])
    return keys, vals, tys, TC, EU, heap, it


def attributes_check(ctx):
    """validate_entity_attributes over <= 2 attributes and <= 2 required names: Ok exactly when every required attribute is present, every present attribute is declared
    (or the type has open attributes) and typechecks against ITS declared type, and every entity uid inside every value is valid"""
    from ..models import key_id
    P = ctx.prog('core')
    f = P.method('entities/conformance.rs', 'validate_entity_attributes', nargs=4)
    ctx.use(f)
    for n in (0, 1, 2):
        for nreq in (0, 1, 2):
            ex = entity_exec(ctx)
            keys, vals, tys, TC, EU, heap, it = _kv_setup(ctx, ex, n, 'attr')
            req = [Opaque('smol_str::SmolStr', f'required{i} name') for i in range(nreq)]
            DECL = [z3.Bool(f'attr{j}_declared') for j in range(n)]
            OPEN = z3.Bool('open_attributes')
            desc = Opaque('EntityTypeDescription', 'description')
            kidx = {k.id: j for j, k in enumerate(keys)}
            ex.stub(r'EntityTypeDescription>::required_attrs$', lambda ex_, st, c, A: Agg('struct', '~vec_iter', None, list(req)) if ident(ex_, st, A[0]) == desc.id else Opaque('x', 'wrong'),
                    'EntityTypeDescription::required_attrs: the required names (<= 2)')

            def attr_type(ex_, st, c, A):
                j = kidx.get(ident(ex_, st, A[1]))
                if j is None or ident(ex_, st, A[0]) != desc.id:
                    return None          # not the object this stub speaks about: fall through (a body, or an arbitrary value under havoc_unknown)
                return [([DECL[j]], some(tys[j])), ([z3.Not(DECL[j])], none())]
            ex.stub(r'EntityTypeDescription>::attr_type$', attr_type, 'EntityTypeDescription::attr_type(name of attribute j): declared (its type) or not, logged')
            ex.stub(r'EntityTypeDescription>::open_attributes$', lambda ex_, st, c, A: BoolV(OPEN), 'EntityTypeDescription::open_attributes: free boolean')
            chk = Agg('struct', 'EntitySchemaConformanceChecker', None, [Ref(0, ('local', 'S')), Ref(0, ('local', 'EXT'))], ('schema', 'extensions'))
            heap.update({'S': Opaque('S', 'schema'), 'EXT': Opaque('Extensions', 'ext'), 'CHK': chk, 'UID': Opaque('ast::entity::EntityUID', 'uid'), 'D': desc})
            outs = ex.run(f, [Ref(0, ('local', 'CHK')), Ref(0, ('local', 'UID')), it, Ref(0, ('local', 'D'))], heap=heap)
            ctx.absorb(ex)
            present = [z3.Or([key_id(req[i]) == key_id(keys[j]) for j in range(n)]) if n else F for i in range(nreq)]
            want = z3.And(present + [z3.And(z3.If(DECL[j], TC[j] == 0, OPEN), EU[j] == 0) for j in range(n)])
            nm = f'validate_entity_attributes[{n} attributes, {nreq} required]'

            def extra(o, tys=tys):
                # an attribute is typechecked against its own declared type
                good = all(o.st.notes.get('tc_against', {}).get(j, tys[j].id) == tys[j].id for j in range(len(tys)))
                return [z3.BoolVal(bool(good))]
            rets = decide_paths(ctx, ex, nm, outs, want, 'entities/conformance.rs: validate_entity_attributes', 'attribute validation deviates from the conformance table', extra=extra, sample_n=1 if (n, nreq) == (1, 1) else 0, can_accept=not (n == 0 and nreq > 0))
            if n or nreq:
                ctx.decide(f'{nm}/witness-reject', [pcs([o for o in rets if o.val.variant == 'Err'])], expect='sat', ex=ex)


def tags_check(ctx):
    """validate_tags over <= 2 tags: Ok exactly when (the type declares a tag type and every tag value typechecks against it, or it declares none and there is no tag)
    and every entity uid inside every tag value is valid"""
    P = ctx.prog('core')
    f = P.method('entities/conformance.rs', 'validate_tags', nargs=4)
    ctx.use(f)
    for n in (0, 1, 2):
        ex = entity_exec(ctx)
        keys, vals, tys, TC, EU, heap, it = _kv_setup(ctx, ex, n, 'tag')
        tagty = Opaque('entities::json::schema_types::SchemaType', 'declared tag type')
        ex._tag_ty_id = tagty.id
        TAGS = z3.Bool('type_declares_tags')
        desc = Opaque('EntityTypeDescription', 'description')
        ex.stub(r'EntityTypeDescription>::tag_type$', lambda ex_, st, c, A: [([TAGS], some(tagty)), ([z3.Not(TAGS)], none())] if ident(ex_, st, A[0]) == desc.id else Opaque('x', 'wrong'),
                'EntityTypeDescription::tag_type: declared (the type) or not')
        chk = Agg('struct', 'EntitySchemaConformanceChecker', None, [Ref(0, ('local', 'S')), Ref(0, ('local', 'EXT'))], ('schema', 'extensions'))
        heap.update({'S': Opaque('S', 'schema'), 'EXT': Opaque('Extensions', 'ext'), 'CHK': chk, 'UID': Opaque('ast::entity::EntityUID', 'uid'), 'D': desc})
        outs = ex.run(f, [Ref(0, ('local', 'CHK')), Ref(0, ('local', 'UID')), it, Ref(0, ('local', 'D'))], heap=heap)
        ctx.absorb(ex)
        want = z3.And([z3.If(TAGS, z3.And([TC[j] == 0 for j in range(n)]) if n else T, z3.BoolVal(n == 0))] + [EU[j] == 0 for j in range(n)])
        nm = f'validate_tags[{n} tags]'

        def extra(o):
            good = all(v == tagty.id for v in o.st.notes.get('tc_against', {}).values())
            return [z3.BoolVal(bool(good))]
        rets = decide_paths(ctx, ex, nm, outs, want, 'entities/conformance.rs: validate_tags', 'tag validation deviates from the conformance table', extra=extra, sample_n=1 if n == 1 else 0)
        if n:
            ctx.decide(f'{nm}/witness-reject', [pcs([o for o in rets if o.val.variant == 'Err'])], expect='sat', ex=ex)


# ---------------------------------------------------------------------------------------------------------------- values against types (per node)

EKN = 'ast::expr::ExprKind'
LIT = 'ast::literal::Literal'
ST = 'entities::json::schema_types::SchemaType'


def boxed(ptr):
    """Box<T> as MIR sees it: Box(Unique(NonNull(pointer)))"""
    return Agg('struct', 'Box', None, [Agg('struct', 'Unique', None, [Agg('struct', 'NonNull', None, [ptr])])])


class Node:
    """a restricted-expression node of a pinned kind with opaque members"""

    def __init__(self, kind, m=0):
        self.kind, self.m = kind, m
        self.this = Opaque('ast::expr::Expr', 'the value')
        self.members = [Opaque('ast::expr::Expr', f'member{i}') for i in range(m)]
        self.keys = [Opaque('smol_str::SmolStr', f'field{i} name') for i in range(m)]
        self.B = z3.Bool('the_boolean')
        self.uid, self.uty = Opaque('ast::entity::EntityUID', 'the entity uid'), Opaque('ast::entity::EntityType', 'type of the entity uid')
        self.fn_name = Opaque('ast::name::Name', 'extension function name')
        self.unknown = Opaque('ast::expr::Unknown', 'the unknown')
        k = kind
        if k == 'bool':
            self.node = Agg('variant', EKN, 'Lit', [Agg('variant', LIT, 'Bool', [BoolV(self.B)])])
        elif k == 'long':
            self.node = Agg('variant', EKN, 'Lit', [Agg('variant', LIT, 'Long', [IntV(z3.Int('the_long'), 'i64')])])
        elif k == 'string':
            self.node = Agg('variant', EKN, 'Lit', [Agg('variant', LIT, 'String', [Opaque('smol_str::SmolStr', 'the string')])])
        elif k == 'euid':
            self.node = Agg('variant', EKN, 'Lit', [Agg('variant', LIT, 'EntityUID', [Agg('struct', 'Arc', None, [self.uid], ('inner',))])])
        elif k == 'set':
            self.node = Agg('variant', EKN, 'Set', [Agg('struct', 'Arc', None, [Agg('struct', '~vec', None, list(self.members))], ('inner',))])
        elif k == 'record':
            self.node = Agg('variant', EKN, 'Record', [Agg('struct', 'Arc', None, [Agg('struct', '~btree', None, [Agg('tuple', None, None, [self.keys[i], self.members[i]]) for i in range(m)])], ('inner',))])
        elif k == 'extfn':
            self.node = Agg('variant', EKN, 'ExtensionFunctionApp', [self.fn_name, Agg('struct', 'Arc', None, [Agg('struct', '~vec', None, list(self.members))], ('inner',))])
        elif k == 'unknown':
            self.node = Agg('variant', EKN, 'Unknown', [self.unknown])
        else:
            raise ValueError(k)

    def label(self):
        return self.kind + (f'({self.m})' if self.kind in ('set', 'record', 'extfn') else '')

    def install(self, ex):
        def expr_kind(ex_, st, c, A):
            e = res(ex_, st, A[0])
            if isinstance(e, Agg) and e.name and 'BorrowedRestrictedExpr' in e.name:
                e = res(ex_, st, e.fields[0])
            if getattr(e, 'id', None) == self.this.id:
                return ex_.new_cell(st, self.node, 'node')
            return None          # not the object this stub speaks about: fall through (a body, or an arbitrary value under havoc_unknown)
        ex.stub(r'Expr::expr_kind$|Expr::<.*>::expr_kind$', expr_kind, 'Expr::expr_kind of the value under test: pinned node kind with opaque members')
        ex.stub(r'BorrowedRestrictedExpr<.*> as Deref>::deref$', lambda ex_, st, c, A: res(ex_, st, A[0]).fields[0], 'BorrowedRestrictedExpr::deref')
        ex.stub(r'EntityUID::entity_type$', lambda ex_, st, c, A: ex_.new_cell(st, self.uty, 'ty') if ident(ex_, st, A[0]) == self.uid.id else Opaque('x', 'wrong'), 'EntityUID::entity_type')

    def member_index(self, ex, st, v):
        e = res(ex, st, v)
        if isinstance(e, Agg) and e.name and 'BorrowedRestrictedExpr' in e.name:
            e = res(ex, st, e.fields[0])
        return {mm.id: i for i, mm in enumerate(self.members)}.get(getattr(e, 'id', None))

    def arg(self):
        return Agg('struct', 'ast::restricted_expr::BorrowedRestrictedExpr', None, [Ref(0, ('local', 'THIS'))])


NODE_SHAPES = [('bool', 0), ('long', 0), ('string', 0), ('euid', 0), ('set', 0), ('set', 1), ('set', 2), ('record', 0), ('record', 1), ('record', 2), ('extfn', 1), ('unknown', 0)]


def schematype_nodes(ctx):
    """typecheck_restricted_expr_against_schematype for every (expected type kind, value node kind): Ok exactly when the value inhabits the type, members judged by the
    recursive call on (member, ITS declared type)"""
    from ..models import key_id
    P = ctx.prog('core')
    f = P.method('entities/conformance.rs', 'typecheck_restricted_expr_against_schematype', nargs=3)
    ctx.use(f)
    TYPES = [('Bool', 0), ('Long', 0), ('String', 0), ('EmptySet', 0), ('Set', 0), ('Entity', 0), ('Extension', 0), ('Record', 0), ('Record', 1), ('Record', 2)]
    for tk, nd in TYPES:
        for nk, m in NODE_SHAPES:
            ex = entity_exec(ctx)
            node = Node(nk, m)
            node.install(ex)
            elty = Opaque(ST, 'element type')
            ety = Opaque('ast::entity::EntityType', 'declared entity type')
            dkeys = [Opaque('smol_str::SmolStr', f'declared{d} name') for d in range(nd)]
            dtys = [Opaque(ST, f'declared{d} type') for d in range(nd)]
            REQ = [z3.Bool(f'declared{d}_required') for d in range(nd)]
            OPEN = z3.Bool('open_record_type')
            if nd == 2:
                ex.invariants.append(key_id(dkeys[0]) != key_id(dkeys[1]))
            if nk == 'record' and m == 2:
                ex.invariants.append(key_id(node.keys[0]) != key_id(node.keys[1]))
            if tk == 'Set':
                ty = Agg('variant', ST, 'Set', [boxed(Ref(0, ('local', 'ELTY')))])
            elif tk == 'Entity':
                ty = Agg('variant', ST, 'Entity', [ety])
            elif tk == 'Extension':
                ty = Agg('variant', ST, 'Extension', [Opaque('ast::name::Name', 'extension type name')])
            elif tk == 'Record':
                ty = Agg('variant', ST, 'Record', [Agg('struct', '~btree', None, [Agg('tuple', None, None, [dkeys[d], Agg('struct', 'AttributeType', None, [dtys[d], BoolV(REQ[d])], ('attr_type', 'required'))]) for d in range(nd)]),
                                                   BoolV(OPEN)])
            else:
                ty = Agg('variant', ST, tk, [])
            # recursive verdicts R[member][which type]: 0 ok, 1 type mismatch, 2 extension lookup error
            tyid = {elty.id: 'el', **{t.id: d for d, t in enumerate(dtys)}}
            R = {}

            def rec(ex_, st, c, A, R=R, node=node, tyid=tyid):
                i = node.member_index(ex_, st, A[0])
                t = tyid.get(ident(ex_, st, A[1]))
                if i is None or t is None:
                    return None          # not the object this stub speaks about: fall through (a body, or an arbitrary value under havoc_unknown)
                v = R.setdefault((i, t), z3.Int(f'member{i}_against_{t}'))
                ex_.invariants.append(z3.And(v >= 0, v <= 2)) if not any(str(v) in str(x) for x in ex_.invariants[-8:]) else None
                TE = 'entities::conformance::TypecheckError'
                return [([v == 0], ok(UNIT)), ([v == 1], err(Agg('variant', TE, 'TypeMismatch', [Opaque('TypeMismatchError', 'e')]))),
                        ([v == 2], err(Agg('variant', TE, 'ExtensionFunctionLookup', [Opaque('ExtensionFunctionLookupError', 'e')])))]
            ex.stub(r'(^|::)typecheck_restricted_expr_against_schematype$', rec, 'recursive typecheck of (member i, declared type t): ok | mismatch | lookup error, logged')
            ex.stub(r'TypeMismatchError::(type_mismatch|missing_required_attr|unexpected_attr)$', lambda ex_, st, c, A: Agg('struct', '~error:' + c.rsplit('::', 1)[1], None, []), 'TypeMismatchError constructors')
            ex.stub(r'BorrowedRestrictedExpr::<.*>::(try_type_of|to_owned)$|BorrowedRestrictedExpr::(try_type_of|to_owned)$', lambda ex_, st, c, A: Opaque('x', 'error payload'), 'error payload (try_type_of / to_owned)')
            ex.stub(r'SchemaType as Clone>::clone$', lambda ex_, st, c, A: Opaque(ST, 'type (error payload)'), 'SchemaType::clone (error payload)')
            TYEQ, ANN, ANNEQ, FUNC, RET, RETEQ = z3.Bool('entity_type_equal'), z3.Bool('unknown_has_usable_annotation'), z3.Bool('annotation_equals_expected'), z3.Bool('function_found'), z3.Bool('function_declares_return_type'), z3.Bool('return_type_equals_expected')
            ex.stub(r'<&?[\w:]*EntityType as PartialEq(<.*>)?>::(eq|ne)$', lambda ex_, st, c, A: BoolV(TYEQ if c.endswith('eq') else z3.Not(TYEQ)), 'EntityType equality (uid type vs declared type): free boolean')
            ann_ty = Opaque(ST, 'annotation as schema type')
            ex.stub(r'SchemaType::from_ty$', lambda ex_, st, c, A: [([ANN], some(ann_ty)), ([z3.Not(ANN)], none())], 'SchemaType::from_ty(annotation): usable or not')
            node.unknown.over[(None, 1)] = some(Opaque('entities::json::schema_types::Type', 'annotation'))
            func, rty = Opaque('ExtensionFunction', 'function'), Opaque(ST, 'return type')
            ex.stub(r'Extensions::<.*>::func$|Extensions::func$', lambda ex_, st, c, A: [([FUNC], ok(ex_.new_cell(st, func, 'func'))), ([z3.Not(FUNC)], err(Opaque('ExtensionFunctionLookupError', 'e')))], 'Extensions::func: found or lookup error')
            ex.stub(r'ExtensionFunction::return_type$', lambda ex_, st, c, A: [([RET], some(ex_.new_cell(st, rty, 'rty'))), ([z3.Not(RET)], none())], 'ExtensionFunction::return_type: declared or not (unknown-like)')

            def st_eq(ex_, st, c, A):
                ids = {ident(ex_, st, A[0]), ident(ex_, st, A[1])}
                if ann_ty.id in ids:
                    return BoolV(ANNEQ if c.endswith('eq') else z3.Not(ANNEQ))
                if rty.id in ids:
                    return BoolV(RETEQ if c.endswith('eq') else z3.Not(RETEQ))
                return None          # not the object this stub speaks about: fall through (a body, or an arbitrary value under havoc_unknown)
            ex.stub(r'<&?[\w:]*SchemaType as PartialEq(<.*>)?>::(eq|ne)$', st_eq, 'SchemaType equality against the expected type: free boolean')
            outs = ex.run(f, [node.arg(), Ref(0, ('local', 'TY')), Ref(0, ('local', 'EXT'))], heap={'THIS': node.this, 'TY': ty, 'EXT': Opaque('Extensions', 'ext'), 'ELTY': elty})
            ctx.absorb(ex)

            def r_of(i, t):
                return R.get((i, t), z3.Int(f'member{i}_against_{t}'))
            if nk == 'unknown':
                want = z3.Implies(ANN, ANNEQ)
            elif nk == 'extfn':
                want = z3.And(FUNC, z3.Implies(RET, RETEQ))
            elif tk in ('Bool', 'Long', 'String'):
                want = z3.BoolVal(nk == tk.lower())
            elif tk == 'EmptySet':
                want = z3.BoolVal(nk == 'set' and m == 0)
            elif tk == 'Set':
                want = z3.And([r_of(i, 'el') == 0 for i in range(m)]) if nk == 'set' else F
            elif tk == 'Entity':
                want = TYEQ if nk == 'euid' else F
            elif tk == 'Extension':
                want = F
            else:
                if nk != 'record':
                    want = F
                else:
                    same = lambda d, i: key_id(dkeys[d]) == key_id(node.keys[i])
                    req_ok = [z3.Implies(REQ[d], z3.Or([z3.And(same(d, i), r_of(i, d) == 0) for i in range(m)]) if m else F) for d in range(nd)]
                    fld_ok = [z3.And([z3.Implies(same(d, i), r_of(i, d) == 0) for d in range(nd)] + [z3.Implies(z3.Not(z3.Or([same(d, i) for d in range(nd)])) if nd else T, OPEN)]) for i in range(m)]
                    want = z3.And(req_ok + fld_ok)
            nm = f'typecheck_against_schematype[{tk}{"(" + str(nd) + ")" if tk == "Record" else ""} <- {node.label()}]'
            decide_paths(ctx, ex, nm, outs, want, 'entities/conformance.rs: typecheck_restricted_expr_against_schematype', 'value typing against a schema type deviates from `the value inhabits the type`',
                         sample_n=1 if (tk, nd, nk, m) == ('Record', 1, 'record', 1) else 0, can_accept=False)
            witnesses(ctx, ex, nm, outs, want)


VT = 'validator::types::Type'


def validator_type_nodes(ctx):
    """Type::typecheck_restricted_expr (contexts) for every (validator type kind, value node kind): Ok(true) exactly when the value inhabits the type, members judged by
    the recursive call on (member, ITS declared type); an error only when a member's check or the extension-function lookup errors"""
    from ..models import key_id
    P = ctx.prog('core')
    f = P.method('validator/types.rs', 'typecheck_restricted_expr', nargs=3, arg0=r'&.*Type$')
    ctx.use(f)
    TYPES = [('Never', 0), ('AnyBool', 0), ('True', 0), ('False', 0), ('Long', 0), ('String', 0), ('SetAny', 0), ('Set', 0), ('Entity', 0), ('AnyEntity', 0), ('Extension', 0), ('Record', 0), ('Record', 1), ('Record', 2)]
    shapes = [x for x in NODE_SHAPES if x[0] != 'unknown'] + [('extfn', 0), ('extfn', 2)]
    for tk, nd in TYPES:
        for nk, m in shapes:
            ex = entity_exec(ctx)
            node = Node(nk, m)
            node.install(ex)
            elty = Opaque(VT, 'element type')
            dkeys = [Opaque('smol_str::SmolStr', f'declared{d} name') for d in range(nd)]
            dtys = [Opaque(VT, f'declared{d} type') for d in range(nd)]
            REQ = [z3.Bool(f'declared{d}_required') for d in range(nd)]
            opentag = Opaque('validator::types::OpenTag', 'open tag')
            OPEN = ex.is_variant(opentag, 'OpenAttributes')
            if nd == 2:
                ex.invariants.append(key_id(dkeys[0]) != key_id(dkeys[1]))
            if nk == 'record' and m == 2:
                ex.invariants.append(key_id(node.keys[0]) != key_id(node.keys[1]))
            arc = lambda x: Agg('struct', 'Arc', None, [x], ('inner',))
            lub = Opaque('validator::types::EntityLUB', 'entity lub')
            tname = Opaque('ast::name::Name', 'extension type name')
            BT = 'validator::types::BoolType'
            if tk in ('AnyBool', 'True', 'False'):
                ty = Agg('variant', VT, 'Bool', [Agg('variant', BT, tk, [])])
            elif tk == 'SetAny':
                ty = Agg('variant', VT, 'Set', [none()])
            elif tk == 'Set':
                ty = Agg('variant', VT, 'Set', [some(arc(elty))])
            elif tk == 'Entity':
                ty = Agg('variant', VT, 'Entity', [Agg('variant', 'validator::types::EntityKind', 'Entity', [lub])])
            elif tk == 'AnyEntity':
                ty = Agg('variant', VT, 'Entity', [Agg('variant', 'validator::types::EntityKind', 'AnyEntity', [])])
            elif tk == 'Extension':
                ty = Agg('variant', VT, 'ExtensionType', [tname])
            elif tk == 'Record':
                bt = Agg('struct', '~btree', None, [Agg('tuple', None, None, [dkeys[d], Agg('struct', 'validator::types::AttributeType', None, [arc(dtys[d]), BoolV(REQ[d])], ('attr_type', 'is_required'))]) for d in range(nd)])
                ty = Agg('variant', VT, 'Record', [Agg('struct', 'validator::types::Attributes', None, [arc(bt)], ('attrs',)), opentag])
            else:
                ty = Agg('variant', VT, tk, [])
            tyid = {elty.id: 'el', **{t.id: d for d, t in enumerate(dtys)}}
            R = {}

            def rec(ex_, st, c, A, R=R, node=node, tyid=tyid):
                t = tyid.get(ident(ex_, st, A[0]))
                i = node.member_index(ex_, st, A[1])
                if i is None or t is None:
                    return None          # not the object this stub speaks about: fall through (a body, or an arbitrary value under havoc_unknown)
                v = R.setdefault((i, t), z3.Int(f'member{i}_against_{t}'))
                return [([v == 0], ok(BoolV(T))), ([v == 1], ok(BoolV(F))), ([z3.And(v != 0, v != 1)], err(Opaque('ExtensionFunctionLookupError', 'e')))]
            ex.stub(r'Type::typecheck_restricted_expr$', rec, 'recursive Type::typecheck_restricted_expr(declared type t, member i): Ok(true) | Ok(false) | Err, logged')
            LUBHAS, FUNC, NAMEEQ = z3.Bool('lub_contains_the_entity_type'), z3.Bool('function_found'), z3.Bool('extension_name_equal')
            RETK = z3.Int('function_return_type')      # 0 an extension type, 1 another type, 2 none
            ex.invariants.append(z3.And(RETK >= 0, RETK <= 2))
            ex.stub(r'EntityLUB::contains$', lambda ex_, st, c, A: BoolV(LUBHAS) if ident(ex_, st, A[0]) == lub.id and ident(ex_, st, A[1]) == node.uty.id else BoolV(z3.Bool('other_contains')),
                    'EntityLUB::contains(type of the uid): free boolean')
            func, rname = Opaque('ExtensionFunction', 'function'), Opaque('ast::name::Name', 'return type name')
            ex.stub(r'Extensions::<.*>::func$|Extensions::func$', lambda ex_, st, c, A: [([FUNC], ok(ex_.new_cell(st, func, 'func'))), ([z3.Not(FUNC)], err(Opaque('ExtensionFunctionLookupError', 'e')))] if ident(ex_, st, A[1]) == node.fn_name.id else Opaque('x', 'wrong'),
                    'Extensions::func(name of the called function): found or lookup error')
            ex.stub(r'ExtensionFunction::return_type$', lambda ex_, st, c, A: [([RETK == 0], some(ex_.new_cell(st, Agg('variant', ST, 'Extension', [rname]), 'rty'))), ([RETK == 1], some(ex_.new_cell(st, Agg('variant', ST, 'Long', []), 'rty'))), ([RETK == 2], none())],
                    'ExtensionFunction::return_type: an extension type | another type | none')
            ex.stub(r'<&?[\w:]*Name as PartialEq(<.*>)?>::(eq|ne)$', lambda ex_, st, c, A: BoolV(NAMEEQ if c.endswith('eq') else z3.Not(NAMEEQ)) if {ident(ex_, st, A[0]), ident(ex_, st, A[1])} == {rname.id, tname.id} else BoolV(z3.Bool('other_names')),
                    'Name equality (return type vs declared extension type): free boolean')
            NARGT = 1
            argtys = [Opaque(ST, f'parameter{i} type') for i in range(NARGT)]
            ex.stub(r'ExtensionFunction::arg_types$', lambda ex_, st, c, A: Agg('struct', '~vec_iter', None, [ex_.new_cell(st, a, 'pty') for a in argtys]), 'ExtensionFunction::arg_types: one declared parameter')
            AR = [z3.Bool(f'argument{i}_typechecks') for i in range(NARGT)]

            def argtc(ex_, st, c, A, node=node):
                i = node.member_index(ex_, st, A[0])
                if i is None or i >= NARGT or ident(ex_, st, A[1]) != argtys[i].id:
                    return None          # not the object this stub speaks about: fall through (a body, or an arbitrary value under havoc_unknown)
                return [([AR[i]], ok(UNIT)), ([z3.Not(AR[i])], err(Opaque('TypecheckError', 'e')))]
            ex.stub(r'(^|::)typecheck_restricted_expr_against_schematype$', argtc, 'typecheck of (argument i, parameter i type): ok or error, logged')
            outs = ex.run(f, [Ref(0, ('local', 'TY')), node.arg(), Ref(0, ('local', 'EXT'))], heap={'THIS': node.this, 'TY': ty, 'EXT': Opaque('Extensions', 'ext')})
            ctx.absorb(ex)

            def r_of(i, t):
                return R.get((i, t), z3.Int(f'member{i}_against_{t}'))
            may_err = F
            if tk == 'Never':
                want = F
            elif tk in ('AnyBool', 'True', 'False'):
                want = {'AnyBool': T, 'True': node.B, 'False': z3.Not(node.B)}[tk] if nk == 'bool' else F
            elif tk in ('Long', 'String'):
                want = z3.BoolVal(nk == tk.lower())
            elif tk == 'SetAny':
                want = z3.BoolVal(nk == 'set')
            elif tk == 'Set':
                want = z3.And([r_of(i, 'el') == 0 for i in range(m)]) if nk == 'set' else F
                may_err = z3.Or([z3.And(r_of(i, 'el') != 0, r_of(i, 'el') != 1) for i in range(m)]) if nk == 'set' and m else F
            elif tk == 'Entity':
                want = LUBHAS if nk == 'euid' else F
            elif tk == 'AnyEntity':
                want = z3.BoolVal(nk == 'euid')
            elif tk == 'Extension':
                want = z3.And([FUNC, RETK == 0, NAMEEQ] + [AR[i] for i in range(min(m, NARGT))]) if nk == 'extfn' else F
                may_err = z3.Not(FUNC) if nk == 'extfn' else F
            else:
                if nk != 'record':
                    want = F
                else:
                    same = lambda d, i: key_id(dkeys[d]) == key_id(node.keys[i])
                    req_ok = [z3.Implies(REQ[d], z3.Or([same(d, i) for i in range(m)]) if m else F) for d in range(nd)]
                    fld_ok = [z3.And([z3.Implies(same(d, i), r_of(i, d) == 0) for d in range(nd)] + [z3.Implies(z3.Not(z3.Or([same(d, i) for d in range(nd)])) if nd else T, OPEN)]) for i in range(m)]
                    want = z3.And(req_ok + fld_ok)
                    may_err = z3.Or([z3.And(same(d, i), r_of(i, d) != 0, r_of(i, d) != 1) for d in range(nd) for i in range(m)]) if nd and m else F
            nm = f'Type::typecheck_restricted_expr[{tk}{"(" + str(nd) + ")" if tk == "Record" else ""} <- {node.label()}]'
            ctx.panic_summary(nm, outs, ex)
            rets = [o for o in outs if o.kind == 'ret']
            for i, o in enumerate(rets):
                if o.val.variant == 'Ok':
                    b = o.val.fields[0]
                    claim = (b.t == want) if isinstance(b, BoolV) else F
                else:
                    claim = z3.And(z3.Not(want), may_err)
                ctx.decide(f'{nm}/path{i}', o.pc + [z3.Not(claim)], ex=ex,
                           sample={'path_condition': [str(c)[:70] for c in o.pc][:8], 'result': o.val.variant + ('(' + str(o.val.fields[0].t)[:60] + ')' if o.val.variant == 'Ok' and isinstance(o.val.fields[0], BoolV) else '')}
                           if (tk, nd, nk, m, i) == ('Record', 1, 'record', 1, 0) else None,
                           on_sat=lambda mm, nm=nm: battery_replay(ctx, nm, 'validator/types.rs: Type::typecheck_restricted_expr', 'context value typing deviates from `the value inhabits the type`'))
            ctx.decide(f'{nm}/paths-cover', [z3.Not(pcs(rets))], ex=ex)
            for verdict, cond in (('accept', want), ('reject', z3.Not(want))):
                sv = z3.Solver()
                sv.add(*ex.invariants)
                sv.add(cond)
                if sv.check() == z3.sat:
                    sel = []
                    for o in rets:
                        if o.val.variant == 'Ok' and isinstance(o.val.fields[0], BoolV):
                            sel.append(z3.And(o.pc + [o.val.fields[0].t == z3.BoolVal(verdict == 'accept')]))
                        elif o.val.variant == 'Err' and verdict == 'reject':
                            sel.append(z3.And(o.pc) if o.pc else T)
                    ctx.decide(f'{nm}/witness-{verdict}', [z3.Or(sel) if sel else F], expect='sat', ex=ex)


def euids_in_subexpressions(ctx):
    """validate_euids_in_subexpressions over 0, 1, 2 sub-expressions of arbitrary kind: Ok exactly when every entity-uid literal among them is valid"""
    P = ctx.prog('core')
    f = P.method('entities/conformance.rs', 'validate_euids_in_subexpressions', nargs=2)
    ctx.use(f)
    for n in (0, 1, 2):
        ex = entity_exec(ctx)
        subs = [Opaque('ast::expr::Expr', f'subexpression{i}') for i in range(n)]
        kinds = [Opaque(EKN, f'kind of subexpression{i}') for i in range(n)]
        lits = [Opaque(LIT, f'literal{i}') for i in range(n)]
        uids = [Opaque('ast::entity::EntityUID', f'uid{i}') for i in range(n)]
        EU = [z3.Int(f'uid{i}_verdict') for i in range(n)]
        ex.invariants += [z3.And(e >= 0, e <= 2) for e in EU]
        for i in range(n):
            kinds[i].over[('Lit', 0)] = lits[i]
            lits[i].over[('EntityUID', 0)] = Agg('struct', 'Arc', None, [uids[i]], ('inner',))
        sidx, uidx = {x.id: i for i, x in enumerate(subs)}, {x.id: i for i, x in enumerate(uids)}

        def expr_kind(ex_, st, c, A):
            i = sidx.get(ident(ex_, st, A[0]))
            if i is None:
                return None          # not the object this stub speaks about: fall through (a body, or an arbitrary value under havoc_unknown)
            return ex_.new_cell(st, kinds[i], 'kind')
        ex.stub(r'Expr::expr_kind$|Expr::<.*>::expr_kind$', expr_kind, 'Expr::expr_kind of sub-expression i: an arbitrary node kind (symbolic discriminant; entity-uid literals carry uid i)')

        def veuid(ex_, st, c, A):
            i = uidx.get(ident(ex_, st, A[1]))
            if i is None:
                return None          # not the object this stub speaks about: fall through (a body, or an arbitrary value under havoc_unknown)
            return euid_verdict(EU[i])
        ex.stub(r'(^|::)validate_euid::<', veuid, 'validate_euid(uid i): ok | invalid enum id | undeclared action, logged')
        heap = {'S': Opaque('S', 'schema'), **{f'E{i}': e for i, e in enumerate(subs)}}
        it = Agg('struct', '~vec_iter', None, [Ref(0, ('local', f'E{i}')) for i in range(n)])
        outs = ex.run(f, [it, Ref(0, ('local', 'S'))], heap=heap)
        ctx.absorb(ex)
        is_uid = [z3.And(ex.is_variant(kinds[i], 'Lit'), ex.is_variant(lits[i], 'EntityUID')) for i in range(n)]
        want = z3.And([z3.Implies(is_uid[i], EU[i] == 0) for i in range(n)]) if n else T
        nm = f'validate_euids_in_subexpressions[{n} subexpressions]'
        decide_paths(ctx, ex, nm, outs, want, 'entities/conformance.rs: validate_euids_in_subexpressions', 'uid validation inside values skips or mis-judges an entity-uid literal', sample_n=1 if n == 1 else 0, can_accept=False)
        witnesses(ctx, ex, nm, outs, want)


def value_wrappers(ctx):
    """the thin wrappers: validate_euids_in_partial_value (all sub-expressions of THIS value are inspected), typecheck_value_against_schematype (the value as a restricted
    expression against THIS type; a nontrivial residual passes), Type::typecheck_partial_value / typecheck_value"""
    P = ctx.prog('core')
    PV = 'ast::partial_value::PartialValue'
    # --- validate_euids_in_partial_value
    f = P.method('entities/conformance.rs', 'validate_euids_in_partial_value', nargs=2)
    ctx.use(f)
    for variant in ('Value', 'Residual'):
        ex = entity_exec(ctx)
        inner = Opaque('ast::value::Value' if variant == 'Value' else 'ast::expr::Expr', 'the ' + variant.lower())
        pv = Agg('variant', PV, variant, [inner])
        E = z3.Int('subexpressions_verdict')
        ex.invariants.append(z3.And(E >= 0, E <= 2))
        rex = Opaque('ast::restricted_expr::RestrictedExpr', 'value as restricted expression')
        ex.stub(r'RestrictedExpr as From<.*Value>>::from$', lambda ex_, st, c, A: rex if ident(ex_, st, A[0]) == inner.id else Opaque('x', 'wrong'), 'RestrictedExpr::from(value)')
        ex.stub(r'RestrictedExpr as Deref>::deref$', lambda ex_, st, c, A: ex_.new_cell(st, Agg('struct', '~expr_of', None, [res(ex_, st, A[0])]), 'e'), 'RestrictedExpr::deref (term)')
        ex.stub(r'Expr::subexpressions$|Expr::<.*>::subexpressions$', lambda ex_, st, c, A: Agg('struct', '~subexpressions', None, [res(ex_, st, A[0])]), 'Expr::subexpressions (term: all sub-expressions of its argument)')

        def sub(ex_, st, c, A):
            it = A[0]
            src = it.fields[0] if isinstance(it, Agg) and it.name == '~subexpressions' else None
            if isinstance(src, Agg) and src.name == '~expr_of':
                src = src.fields[0]
            want_id = rex.id if variant == 'Value' else inner.id
            if getattr(src, 'id', None) != want_id:
                return None          # not the object this stub speaks about: fall through (a body, or an arbitrary value under havoc_unknown)
            return euid_verdict(E)
        ex.stub(r'(^|::)validate_euids_in_subexpressions::<', sub, 'validate_euids_in_subexpressions(all sub-expressions of this value): verdict, logged (own obligation)')
        outs = ex.run(f, [Ref(0, ('local', 'S')), Ref(0, ('local', 'PV'))], heap={'S': Opaque('S', 'schema'), 'PV': pv})
        ctx.absorb(ex)
        nm = f'validate_euids_in_partial_value[{variant}]'
        decide_paths(ctx, ex, nm, outs, E == 0, 'entities/conformance.rs: validate_euids_in_partial_value', 'uid validation does not inspect the sub-expressions of the value', sample_n=0, can_accept=False)
        witnesses(ctx, ex, nm, outs, E == 0)
    # --- typecheck_value_against_schematype
    f = P.method('entities/conformance.rs', 'typecheck_value_against_schematype', nargs=3)
    ctx.use(f)
    ex = entity_exec(ctx)
    pv, ty = Opaque(PV, 'the value'), Opaque(ST, 'the declared type')
    CONV, TC = z3.Bool('convertible_to_restricted_expression'), z3.Int('typecheck_verdict')
    ex.invariants.append(z3.And(TC >= 0, TC <= 2))
    rex, e0 = Opaque('ast::restricted_expr::RestrictedExpr', 'value as restricted expression'), Opaque('ast::expr::Expr', 'its expression')
    ex.stub(r'RestrictedExpr as TryFrom<.*PartialValue>>::try_from$', lambda ex_, st, c, A: [([CONV], ok(rex)), ([z3.Not(CONV)], err(Agg('variant', 'ast::restricted_expr::PartialValueToRestrictedExprError', 'NontrivialResidual', [Opaque('Box<Expr>', 'residual')])))]
            if ident(ex_, st, A[0]) == pv.id else Opaque('x', 'wrong'), 'RestrictedExpr::try_from(value): a restricted expression, or a nontrivial residual')
    ex.stub(r'RestrictedExpr::as_borrowed$', lambda ex_, st, c, A: Agg('struct', 'ast::restricted_expr::BorrowedRestrictedExpr', None, [ex_.new_cell(st, e0, 'e')]) if ident(ex_, st, A[0]) == rex.id else Opaque('x', 'wrong'), 'RestrictedExpr::as_borrowed')

    def tc(ex_, st, c, A):
        b = res(ex_, st, A[0])
        if not (isinstance(b, Agg) and ident(ex_, st, b.fields[0]) == e0.id and ident(ex_, st, A[1]) == ty.id):
            return None          # not the object this stub speaks about: fall through (a body, or an arbitrary value under havoc_unknown)
        TE = 'entities::conformance::TypecheckError'
        return [([TC == 0], ok(UNIT)), ([TC == 1], err(Agg('variant', TE, 'TypeMismatch', [Opaque('TypeMismatchError', 'e')]))), ([TC == 2], err(Agg('variant', TE, 'ExtensionFunctionLookup', [Opaque('ExtensionFunctionLookupError', 'e')])))]
    ex.stub(r'(^|::)typecheck_restricted_expr_against_schematype$', tc, 'typecheck_restricted_expr_against_schematype(this value, this type): verdict, logged (own obligations)')
    outs = ex.run(f, [Ref(0, ('local', 'PV')), Ref(0, ('local', 'TY')), Ref(0, ('local', 'EXT'))], heap={'PV': pv, 'TY': ty, 'EXT': Opaque('Extensions', 'ext')})
    ctx.absorb(ex)
    want = z3.Implies(CONV, TC == 0)
    decide_paths(ctx, ex, 'typecheck_value_against_schematype', outs, want, 'entities/conformance.rs: typecheck_value_against_schematype', 'attribute value typing is mis-wired', sample_n=0, can_accept=False)
    witnesses(ctx, ex, 'typecheck_value_against_schematype', outs, want)
    # --- Type::typecheck_partial_value / typecheck_value
    f = P.method('validator/types.rs', 'typecheck_partial_value', nargs=3)
    ctx.use(f)
    for variant in ('Value', 'Residual'):
        ex = entity_exec(ctx)
        inner = Opaque('ast::value::Value' if variant == 'Value' else 'ast::expr::Expr', 'the ' + variant.lower())
        pv, ty = Agg('variant', PV, variant, [inner]), Opaque(VT, 'the declared type')
        RESTRICTED, V = z3.Bool('residual_is_a_restricted_expression'), z3.Int('typecheck_verdict')
        ex.invariants.append(z3.And(V >= 0, V <= 2))
        verdict = lambda: [([V == 0], ok(BoolV(T))), ([V == 1], ok(BoolV(F))), ([V == 2], err(Opaque('ExtensionFunctionLookupError', 'e')))]
        ex.stub(r'Type::typecheck_value$', lambda ex_, st, c, A: verdict() if ident(ex_, st, A[0]) == ty.id and ident(ex_, st, A[1]) == inner.id else Opaque('x', 'wrong'), 'Type::typecheck_value(this type, this value): verdict, logged')
        ex.stub(r'BorrowedRestrictedExpr::<.*>::new$|BorrowedRestrictedExpr::new$', lambda ex_, st, c, A: [([RESTRICTED], ok(Agg('struct', 'ast::restricted_expr::BorrowedRestrictedExpr', None, [A[0]]))), ([z3.Not(RESTRICTED)], err(Opaque('RestrictedExpressionError', 'e')))],
                'BorrowedRestrictedExpr::new(residual): restricted or not')

        def tre(ex_, st, c, A):
            b = res(ex_, st, A[1])
            if not (ident(ex_, st, A[0]) == ty.id and isinstance(b, Agg) and ident(ex_, st, b.fields[0]) == inner.id):
                return None          # not the object this stub speaks about: fall through (a body, or an arbitrary value under havoc_unknown)
            return verdict()
        ex.stub(r'Type::typecheck_restricted_expr$', tre, 'Type::typecheck_restricted_expr(this type, this residual): verdict, logged (own obligations)')
        outs = ex.run(f, [Ref(0, ('local', 'TY')), Ref(0, ('local', 'PV')), Ref(0, ('local', 'EXT'))], heap={'PV': pv, 'TY': ty, 'EXT': Opaque('Extensions', 'ext')})
        ctx.absorb(ex)
        nm = f'Type::typecheck_partial_value[{variant}]'
        ctx.panic_summary(nm, outs, ex)
        rets = [o for o in outs if o.kind == 'ret']
        for i, o in enumerate(rets):
            cond = (z3.And(RESTRICTED, V == 0) if variant == 'Residual' else V == 0)
            errc = (z3.And(RESTRICTED, V == 2) if variant == 'Residual' else V == 2)
            claim = (o.val.fields[0].t == cond) if o.val.variant == 'Ok' and isinstance(o.val.fields[0], BoolV) else (errc if o.val.variant == 'Err' else F)
            ctx.decide(f'{nm}/path{i}', o.pc + [z3.Not(claim)], ex=ex, on_sat=lambda mm, nm=nm: battery_replay(ctx, nm, 'validator/types.rs: Type::typecheck_partial_value', 'context typing is mis-wired'))
        ctx.decide(f'{nm}/paths-cover', [z3.Not(pcs(rets))], ex=ex)
        ctx.decide(f'{nm}/witness', [pcs(rets)], expect='sat', ex=ex)
    f = P.method('validator/types.rs', 'typecheck_value', nargs=3)
    ctx.use(f)
    ex = entity_exec(ctx)
    val, ty = Opaque('ast::value::Value', 'the value'), Opaque(VT, 'the declared type')
    rex, e0 = Opaque('ast::restricted_expr::RestrictedExpr', 'value as restricted expression'), Opaque('ast::expr::Expr', 'its expression')
    V = z3.Int('typecheck_verdict')
    ex.invariants.append(z3.And(V >= 0, V <= 2))
    ex.stub(r'RestrictedExpr as From<.*Value>>::from$', lambda ex_, st, c, A: rex if ident(ex_, st, A[0]) == val.id else Opaque('x', 'wrong'), 'RestrictedExpr::from(value)')
    ex.stub(r'RestrictedExpr::as_borrowed$', lambda ex_, st, c, A: Agg('struct', 'ast::restricted_expr::BorrowedRestrictedExpr', None, [ex_.new_cell(st, e0, 'e')]) if ident(ex_, st, A[0]) == rex.id else Opaque('x', 'wrong'), 'RestrictedExpr::as_borrowed')

    def tre2(ex_, st, c, A):
        b = res(ex_, st, A[1])
        if not (ident(ex_, st, A[0]) == ty.id and isinstance(b, Agg) and ident(ex_, st, b.fields[0]) == e0.id):
            return None          # not the object this stub speaks about: fall through (a body, or an arbitrary value under havoc_unknown)
        return [([V == 0], ok(BoolV(T))), ([V == 1], ok(BoolV(F))), ([V == 2], err(Opaque('ExtensionFunctionLookupError', 'e')))]
    ex.stub(r'Type::typecheck_restricted_expr$', tre2, 'Type::typecheck_restricted_expr(this type, this value): verdict, logged (own obligations)')
    outs = ex.run(f, [Ref(0, ('local', 'TY')), Ref(0, ('local', 'V')), Ref(0, ('local', 'EXT'))], heap={'V': val, 'TY': ty, 'EXT': Opaque('Extensions', 'ext')})
    ctx.absorb(ex)
    ctx.panic_summary('Type::typecheck_value', outs, ex)
    rets = [o for o in outs if o.kind == 'ret']
    for i, o in enumerate(rets):
        claim = (o.val.fields[0].t == (V == 0)) if o.val.variant == 'Ok' and isinstance(o.val.fields[0], BoolV) else (V == 2 if o.val.variant == 'Err' else F)
        ctx.decide(f'Type::typecheck_value/path{i}', o.pc + [z3.Not(claim)], ex=ex, on_sat=lambda mm: battery_replay(ctx, 'Type::typecheck_value', 'validator/types.rs: Type::typecheck_value', 'context typing is mis-wired'))
    ctx.decide('Type::typecheck_value/paths-cover', [z3.Not(pcs(rets))], ex=ex)
    ctx.decide('Type::typecheck_value/witness', [pcs(rets)], expect='sat', ex=ex)


def entry_points(ctx):
    """every core entry point that takes a schema runs the checker on every datum it admits: Entities::{add_entities, upsert_entities, from_entities} (one entity of the batch /
    of the map, symbolic), EntityJsonParser::single_from_ejson, Request::{new, new_with_unknowns}: a successful return implies the conformance check ran on THIS datum and passed"""
    P = ctx.prog('core')
    V = z3.Bool('datum_conforms')

    def one(cands, what):
        if len(cands) != 1:
            raise LookupError(f'{what}: {len(cands)} candidates')
        ctx.use(cands[0])
        return cands[0]

    def verdict_stub(ex, entity, tag):
        def ve(ex_, st, c, A):
            hit = ident(ex_, st, A[1]) == entity.id
            st.notes.setdefault('validated', []).append(bool(hit))
            return [([V], ok(UNIT)), ([z3.Not(V)], err(Opaque('EntitySchemaConformanceError', 'nonconformant')))]
        ex.stub(r'EntitySchemaConformanceChecker::<.*>::validate_entity$', ve, tag)

    def conclude(nm, ex, outs, with_schema, role):
        oks = [o for o in outs if o.kind == 'ret' and isinstance(o.val, Agg) and o.val.variant == 'Ok']
        opaque = [o for o in outs if o.kind == 'ret' and not (isinstance(o.val, Agg) and o.val.variant in ('Ok', 'Err'))]
        if opaque:
            raise NotEncoded(f'{nm}: result of unknown shape {opaque[0].val!r}')
        for i, o in enumerate(oks):
            ran = any(o.st.notes.get('validated', []))
            claim = z3.And(z3.BoolVal(bool(ran)), V) if with_schema else T
            ctx.decide(f'{nm}/ok-path{i}', o.pc + [z3.Not(claim)], ex=ex, on_sat=lambda mm: battery_replay(ctx, nm, role, 'an entry point admits a datum without (successfully) running the conformance check on it'))
        ctx.decide(f'{nm}/witness-admits', [pcs(oks)], expect='sat', ex=ex)
        if with_schema:
            ctx.decide(f'{nm}/witness-rejects', [pcs([o for o in outs if o.kind == 'ret' and o.val.variant == 'Err'])], expect='sat', ex=ex)

    # --- Entities::add_entities / upsert_entities
    for meth in ('add_entities', 'upsert_entities'):
        f = one([c for c in P.find(r'>::' + meth + '$', 'cedar-policy-core/src/entities.rs') if c.args and c.args[0][1].endswith('Entities')], meth)
        for with_schema in (True, False):
            ex = entity_exec(ctx)
            ex.max_paths = 600
            entity = Opaque('ast::entity::Entity', 'the entity of the batch')
            verdict_stub(ex, entity, 'validate_entity(entity of the batch): arbitrary verdict, logged')
            ex.stub(r'HashMap::<.*>::(values|values_mut)$', lambda ex_, st, c, A: Agg('struct', '~vec_iter', None, []), 'entities.values(): no other entity in the store (closure maintenance is C04)')
            ex.stub(r'HashMap::<.*>::get::<', lambda ex_, st, c, A: none(), 'entities.get(uid): not present before')
            ex.stub(r'(^|::)update_entity_map$', lambda ex_, st, c, A: [([z3.Bool('no_duplicate')], ok(UNIT)), ([z3.Not(z3.Bool('no_duplicate'))], err(Opaque('entities::err::EntitiesError', 'duplicate')))], 'update_entity_map: ok or duplicate')
            ex.stub(r'(^|::)(enforce_tc_and_dag|repair_tc|compute_tc)::<', lambda ex_, st, c, A: [([z3.Bool('tc_ok')], ok(UNIT)), ([z3.Not(z3.Bool('tc_ok'))], err(Opaque('TcError', 'tc')))], 'transitive-closure maintenance: ok or error (C04)')
            ex.from_wrappers.add('EntitiesError')
            ents = Agg('struct', 'entities::Entities', None, [Opaque('HashMap<EntityUID, Arc<Entity>>', 'map'), Opaque('entities::Mode', 'mode')], ('entities', 'mode'))
            coll = Agg('struct', '~vec_iter', None, [Agg('struct', 'Arc', None, [entity], ('inner',))])
            args = [ents, coll, some(Ref(0, ('local', 'S'))) if with_schema else none(), Opaque('entities::TCComputation', 'tc'), Ref(0, ('local', 'EXT'))]
            outs = ex.run(f, args, heap={'S': Opaque('S', 'schema'), 'EXT': Opaque('Extensions', 'ext')})
            ctx.absorb(ex)
            conclude(f'Entities::{meth}[{"with" if with_schema else "without"} schema]', ex, outs, with_schema, f'entities.rs: Entities::{meth} validates every added entity')
    # --- Entities::from_entities
    f = one(P.find(r'>::from_entities$', 'cedar-policy-core/src/entities.rs'), 'from_entities')
    for with_schema in (True, False):
        ex = entity_exec(ctx)
        ex.max_paths = 600
        entity = Opaque('ast::entity::Entity', 'an entity of the map')
        uid, ty = Opaque('ast::entity::EntityUID', 'uid'), Opaque('ast::entity::EntityType', 'type')
        verdict_stub(ex, entity, 'validate_entity(entity of the map): arbitrary verdict, logged')
        ex.stub(r'(^|::)create_entity_map::<', lambda ex_, st, c, A: [([z3.Bool('no_duplicate')], ok(Opaque('HashMap<EntityUID, Arc<Entity>>', 'entity map'))), ([z3.Not(z3.Bool('no_duplicate'))], err(Opaque('entities::err::EntitiesError', 'duplicate')))], 'create_entity_map: the map or duplicate error')
        ex.stub(r'HashMap::<.*>::values$', lambda ex_, st, c, A: Agg('struct', '~vec_iter', None, [ex_.new_cell(st, Agg('struct', 'Arc', None, [entity], ('inner',)), 'arc')]), 'entity_map.values(): one symbolic entity (any entity of the map)')
        ex.stub(r'Entity::uid$', lambda ex_, st, c, A: ex_.new_cell(st, uid, 'uid'), 'Entity::uid')
        ex.stub(r'EntityUID::entity_type$', lambda ex_, st, c, A: ex_.new_cell(st, ty, 'ty'), 'EntityUID::entity_type')
        ex.stub(r'EntityType::is_action$', lambda ex_, st, c, A: BoolV(z3.Bool('is_action')), 'EntityType::is_action: free boolean')
        ex.stub(r'(^|::)(enforce_tc_and_dag|repair_tc|compute_tc)::<', lambda ex_, st, c, A: [([z3.Bool('tc_ok')], ok(UNIT)), ([z3.Not(z3.Bool('tc_ok'))], err(Opaque('TcError', 'tc')))], 'transitive-closure maintenance: ok or error (C04)')
        ex.stub(r'as Extend<.*>>::extend::<|Schema>::action_entities$| as Iterator>::map::<', lambda ex_, st, c, A: UNIT if 'extend' in c else Opaque('iter', 'iterator'), 'schema action entities added to the map (payload)')
        ex.from_wrappers.add('EntitiesError')
        args = [Opaque('impl IntoIterator<Item = Entity>', 'entities'), some(Ref(0, ('local', 'S'))) if with_schema else none(), Opaque('entities::TCComputation', 'tc'), Ref(0, ('local', 'EXT'))]
        outs = ex.run(f, args, heap={'S': Opaque('S', 'schema'), 'EXT': Opaque('Extensions', 'ext')})
        ctx.absorb(ex)
        conclude(f'Entities::from_entities[{"with" if with_schema else "without"} schema]', ex, outs, with_schema, 'entities.rs: Entities::from_entities validates every entity (actions and non-actions)')
    # --- EntityJsonParser::single_from_ejson
    f = one(P.find(r'>::single_from_ejson$', 'cedar-policy-core/src/entities/json/entities.rs'), 'single_from_ejson')
    for with_schema in (True, False):
        ex = entity_exec(ctx)
        entity = Opaque('ast::entity::Entity', 'the parsed entity')
        verdict_stub(ex, entity, 'validate_entity(parsed entity): arbitrary verdict, logged')
        ex.stub(r'EntityJsonParser::<.*>::parse_ejson$', lambda ex_, st, c, A: [([z3.Bool('parses')], ok(entity)), ([z3.Not(z3.Bool('parses'))], err(Opaque('JsonDeserializationError', 'e')))], 'parse_ejson: the entity or a parse error')
        ex.from_wrappers.add('EntitiesError')
        parser = Agg('struct', 'EntityJsonParser', None, [some(Ref(0, ('local', 'S'))) if with_schema else none(), Ref(0, ('local', 'EXT')), Opaque('TCComputation', 'tc')], ('schema', 'extensions', 'tc_computation'))
        outs = ex.run(f, [Ref(0, ('local', 'P')), Opaque('EntityJson', 'ejson')], heap={'S': Opaque('S', 'schema'), 'EXT': Opaque('Extensions', 'ext'), 'P': parser})
        ctx.absorb(ex)
        conclude(f'EntityJsonParser::single_from_ejson[{"with" if with_schema else "without"} schema]', ex, outs, with_schema, 'entities/json/entities.rs: single_from_ejson validates the parsed entity')
    # --- Request::new / new_with_unknowns
    for meth, nargs in (('new', 6), ('new_with_unknowns', 6)):
        f = one([c for c in P.find(r'>::' + meth + '$', 'cedar-policy-core/src/ast/request.rs') if len(c.args) == nargs and 'Option<&S>' in c.args[4][1]], 'Request::' + meth)
        for with_schema in (True, False):
            ex = entity_exec(ctx)
            cx = Opaque('ast::request::Context', 'the context')
            parts = {k: Opaque('ast::entity::EntityUID', k) for k in ('principal', 'action', 'resource')}

            def vr(ex_, st, c, A, parts=parts, cx=cx, meth=meth):
                rq = res(ex_, st, A[1])
                good = isinstance(rq, Agg) and len(rq.fields) == 4
                if good and meth == 'new':
                    for i, k in enumerate(('principal', 'action', 'resource')):
                        e = rq.fields[i]
                        good = good and isinstance(e, Agg) and any(getattr(res(ex_, st, x), 'id', None) == parts[k].id or (isinstance(x, Agg) and x.fields and getattr(res(ex_, st, x.fields[0]), 'id', None) == parts[k].id) for x in e.fields)
                    c4 = rq.fields[3]
                    good = good and isinstance(c4, Agg) and c4.variant == 'Some' and getattr(c4.fields[0], 'id', None) == cx.id
                st.notes.setdefault('validated', []).append(bool(good))
                return [([V], ok(UNIT)), ([z3.Not(V)], err(Opaque('RequestValidationError', 'nonconformant')))]
            ex.stub(r' as (ast::request::)?RequestSchema>::validate_request$', vr, 'RequestSchema::validate_request(the request being built): arbitrary verdict, logged')
            if meth == 'new':
                args = [Agg('tuple', None, None, [parts[k], none()]) for k in ('principal', 'action', 'resource')] + [cx]
            else:
                args = [Opaque('ast::request::EntityUIDEntry', k) for k in ('principal', 'action', 'resource')] + [some(cx)]
            args += [some(Ref(0, ('local', 'S'))) if with_schema else none(), Ref(0, ('local', 'EXT'))]
            outs = ex.run(f, args, heap={'S': Opaque('S', 'schema'), 'EXT': Opaque('Extensions', 'ext')})
            ctx.absorb(ex)
            conclude(f'Request::{meth}[{"with" if with_schema else "without"} schema]', ex, outs, with_schema, f'ast/request.rs: Request::{meth} validates the request it builds')


def families(ctx):
    return [('request scope variables', lambda: scope_variables(ctx)), ('request entry', lambda: request_entry(ctx)), ('request context', lambda: context_check(ctx)),
            ('enumerated ids', lambda: enumerated(ctx)), ('entity uid', lambda: euid_check(ctx)), ('action entity', lambda: action_check(ctx)), ('entity entry', lambda: entity_entry(ctx)),
            ('entity ancestors', lambda: ancestors_check(ctx)), ('entity attributes', lambda: attributes_check(ctx)), ('entity tags', lambda: tags_check(ctx)),
            ('uids inside values', lambda: euids_in_subexpressions(ctx)), ('value wrappers', lambda: value_wrappers(ctx)),
            ('values against schema types', lambda: schematype_nodes(ctx)), ('values against validator types', lambda: validator_type_nodes(ctx)),
            ('entry points', lambda: entry_points(ctx))]


def run(ctx):
    ctx.run_families(families(ctx))
    ctx.guarded('native battery', lambda: battery_selftest(ctx))
    ctx.bounds += ['one node / one loop element at a time with arbitrary verdicts for the members (structural induction => data of any depth and size): sets, records, record types, attribute maps, tag maps, '
                   'ancestor lists, sub-expression lists and required-attribute lists with <= 2 members (<= 3 enumerated choices); member names compared through symbolic identities',
                   f'native battery: {len(ENTITY_BATTERY)} entity probes (some repeated because ancestor / tag iteration order is hash-dependent) and {len(REQUEST_BATTERY)} request probes, each violating at most one requirement '
                   'at one position (top level, nested record, set element, record in set, set in set, tag value, ancestor), through every public entry point that takes a schema']
    ctx.assumptions += ['schema look-ups (Schema::{entity_type, action}, EntityTypeDescription::{attr_type, tag_type, required_attrs, allowed_parent_types, open_attributes, enum_entity_eids}, ValidatorSchema::{get_entity_type, '
                        'get_action_id}, ValidatorActionId::{is_applicable_*_type, context_type}, Extensions::func, ExtensionFunction::{return_type, arg_types}) are environment stubs returning arbitrary answers: that the '
                        'schema object answers them correctly (e.g. allowed_parent_types is transitively closed, CoreSchema / EntityTypeDescription::new) is NOT decided here, only exercised by the native battery',
                        'equality of names / entity types / ids and Entity::deep_eq are free booleans; HashMap / BTreeMap / iterator adaptors over the <= 2-member containers are models (mir2smt/models.py: m_iter_hof)',
                        'callees unknown to this module return arbitrary values (havoc_unknown): a counterexample through them is only reported if the native battery reproduces a wrong verdict, otherwise the run ends UNCONFIRMED (exit 2)',
                        'JSON parsing (schema-directed coercions of __entity / __extn forms, EntityJsonParser::parse_ejson, ContextJsonParser) and the TPE entry points (tpe/entities.rs, tpe/request.rs, tpe/response.rs) are NOT covered symbolically']
    return ctx.finish('Solver-decided schema conformance, executed from the MIR of the current tree, one node / loop element at a time: request validation (scope variables for all 8 presence patterns, context, wiring), '
                      'entity validation (entry, uid, action, ancestors, attributes incl. required / undeclared / open, tags), entity uids inside values, typing of values against schema types '
                      '(typecheck_restricted_expr_against_schematype: 10 type shapes x 12 value shapes) and against validator types (Type::typecheck_restricted_expr: 14 x 13), and that every core entry point that takes a '
                      'schema admits a datum only after the check ran on it and passed; plus a native battery of single-requirement probes through every public entry point.')
