"""C03, third slice - where capabilities are produced and consumed: attribute access `e.a` and `e has a` of SingleEnvTypechecker::typecheck, plus `like`.
Same harness as c03_control (one run of `typecheck` on the node, the child's own typecheck answering freely); what the schema says about the attribute is free:
declared or not, with a type of one of the kinds, required or optional, `may_have_attr` free.  The capability "child has a" is a marker: `prior.contains(it)` is a
free boolean, `singleton(it)` is the set containing exactly it; the arbitrary fact tracked by the pointwise set model either is this capability or another one.

Reference semantics (C02): `e.a` raises a type error unless e is an entity or record, and an attribute error when the value lacks `a`; a value of a validated
type lacks only optional attributes; `e has a` is true only if the value has `a`.
  e.a    accepted => child accepted with an entity / record type, `a` declared, and (required or the capability is among the prior facts); type = declared type;
         in strict mode nothing else is accepted (partial-schema mode may answer Never for an undeclared attribute of an open type);
  e has a accepted => child accepted with an entity / record type; type True only if the capability is among the prior facts, or `a` is a required attribute
         of a record type; type False only if `a` is undeclared and the type cannot have it; the only fact passed on is the capability itself;
  e like p accepted => child accepted with type String; type Bool; nothing passed on."""
import z3
from ..executor import IntV, BoolV, Agg, Opaque, Ref, NotEncoded, UNIT
from ..models import some, none
from .c06 import arc, EK
from .c03 import KINDS, mk_type, strip
from .c03_control import control_node, cap, cap_term, T, F

AKINDS = ['Long', 'Bool', 'True', 'Set', 'Entity']     # kinds of the declared attribute type
ENTREC = ('Entity', 'Record', 'Never')


def attr_extra(ex, env):
    REQ, INPRIOR, SAME, MAY = z3.Bool('attribute_is_required'), z3.Bool('capability_for_this_access_is_a_prior_fact'), z3.Bool('the_tracked_fact_is_this_capability'), z3.Bool('type_may_have_the_attribute')
    STRICT, PARTIAL, DECL = z3.Bool('strict_mode'), z3.Bool('partial_schema_mode'), z3.Int('declared_attribute_kind')
    env.update(REQ=REQ, INPRIOR=INPRIOR, SAME=SAME, MAY=MAY, STRICT=STRICT, PARTIAL=PARTIAL, DECL=DECL)
    # the tracked fact is in the prior set iff ... when it is this capability; strict mode is not partial-schema mode
    env['pre'] += [DECL >= -1, DECL < len(AKINDS), z3.Implies(SAME, INPRIOR == env['PRIOR']), z3.Not(z3.And(STRICT, PARTIAL))]
    gid, names = env['gid'], env['names']
    attr_id = env['attr'].id
    child_id = env['kids'][0].id
    THIS, WRONG = Opaque('validator::types::capability::Capability', 'the capability `child has attr`'), Opaque('validator::types::capability::Capability', 'a capability about another expression or attribute')

    def new_attribute(ex_, st, c, A):
        return THIS if (gid(ex_, st, A[0]) == child_id and gid(ex_, st, A[1]) == attr_id) else WRONG
    ex.stub(r'Capability::<.*>::new_attribute$|Capability::new_attribute$', new_attribute, 'Capability::new_attribute(child, attr): a marker (another marker if it is not about this child and this attribute)')
    ex.stub(r'CapabilitySet::<.*>::contains$|CapabilitySet::contains$', lambda ex_, st, c, A: BoolV(INPRIOR if gid(ex_, st, A[1]) == THIS.id else T), 'prior.contains(capability): free for the capability of this access (a wrong capability counts as always present)')
    ex.stub(r'CapabilitySet::<.*>::singleton$|CapabilitySet::singleton$', lambda ex_, st, c, A: cap(SAME if gid(ex_, st, A[0]) == THIS.id else T), 'CapabilitySet::singleton(capability)')
    ex.stub(r'SmolStr as Clone>::clone$', lambda ex_, st, c, A: strip(ex_, st, A[0]), 'SmolStr::clone')

    def lookup(ex_, st, c, A):
        def note(j):
            def go(s2):
                s2.notes['decl'] = j
            return go
        alts = [([DECL == -1], none(), note(-1))]
        for j, kn in enumerate(AKINDS):
            alts.append(([DECL == j], some(Agg('struct', 'validator::types::AttributeType', None, [arc(mk_type(kn, names)), BoolV(REQ)], ('attr_type', 'is_required'))), note(j)))
        return alts
    ex.stub(r'Type::lookup_attribute_type$', lookup, 'Type::lookup_attribute_type: undeclared, or declared with a type of one of the kinds ' + ', '.join(AKINDS) + ', required or optional')
    ex.stub(r'Type::may_have_attr$', lambda ex_, st, c, A: BoolV(MAY), 'Type::may_have_attr: free')
    ex.stub(r'Type::all_attributes$', lambda ex_, st, c, A: Agg('struct', '~vec', None, []), 'Type::all_attributes (for the suggestion in the error message)')
    ex.stub(r'fuzzy_search(::<.*>)?$', lambda ex_, st, c, A: none(), 'fuzzy_search: no suggestion')
    ex.stub(r'AttributeAccess::from_expr$', lambda ex_, st, c, A: Opaque('AttributeAccess', 'access path for the message'), 'AttributeAccess::from_expr (message)')
    ex.stub(r'ValidationMode::is_strict$', lambda ex_, st, c, A: BoolV(STRICT), 'validation mode: strict or not')
    ex.stub(r'ValidationMode::is_partial$', lambda ex_, st, c, A: BoolV(PARTIAL), 'validation mode: partial-schema or not')
    # entity / record kinds against the expected `any entity` / `any record` types: width subtyping in permissive mode - every entity type is an entity reference, every record a record
    ex.stub(r'EntityKind::is_subtype$', lambda ex_, st, c, A: BoolV(T), 'EntityKind::is_subtype(_, AnyEntity): every entity type is an entity reference')
    ex.stub(r'Attributes::is_subtype(_depth_only)?$', lambda ex_, st, c, A: BoolV(T), 'Attributes::is_subtype(_, {}): every record type is a record (width subtyping against the empty open record)')
    ex.stub(r'OpenTag::is_open$', lambda ex_, st, c, A: BoolV(z3.BoolVal(getattr(strip(ex_, st, A[0]), 'variant', 'OpenAttributes') == 'OpenAttributes')), 'OpenTag::is_open (the opaque record kind counts as open)')
    ex.stub(r'ExprBuilder::<.*>::new$', lambda ex_, st, c, A: Agg('struct', '~builder', None, [none()]), 'ExprBuilder::new: no annotation')
    ex.stub(r'ExprBuilder<.*> as (expr_builder::)?ExprBuilder>::(get_attr|has_attr|like)$|ExprBuilder::<.*>::(get_attr|has_attr|like)$',
            lambda ex_, st, c, A: (lambda b: Agg('struct', '~typed', None, [b.fields[0], Opaque('node', 'typed node')]) if isinstance(b, Agg) and b.name == '~builder' else None)(strip(ex_, st, A[0])), 'typed node built with the annotation of the builder')


def spec_get(kinds, CL, PRIOR, notes=None, env=None):
    d = notes.get('decl')
    declared = d is not None and d >= 0
    ok = z3.And(z3.BoolVal(declared), z3.Or(env['REQ'], env['INPRIOR']))
    # partial-schema validation (not strict): an undeclared attribute of a type that may have it gets the bottom type
    partial = z3.And(z3.BoolVal(d == -1), env['PARTIAL'], env['MAY'])
    types = {AKINDS[d]} if declared else ({'Never'} if d == -1 else set(KINDS) | {None})
    return {'evaluated': [True], 'kinds_ok': [set(ENTREC)], 'capin': [PRIOR], 'capout': PRIOR, 'types': types, 'sound_extra': z3.Or(ok, partial)}


def spec_has(kinds, CL, PRIOR, notes=None, env=None):
    d = notes.get('decl')
    k = kinds[0]
    declared = d is not None and d >= 0

    def type_ok(rk):
        if k == 'Never' or rk == 'Bool':
            return T
        if rk == 'True':          # `has` is always true: the capability is a prior fact, or a required attribute of a record (a record value always exists)
            return z3.And(z3.BoolVal(declared), z3.Or(env['INPRIOR'], z3.And(env['REQ'], z3.BoolVal(k == 'Record'))))
        if rk == 'False':         # `has` is never true: the type cannot have the attribute
            return z3.And(z3.BoolVal(d == -1), z3.Not(env['MAY']))
        return F
    return {'evaluated': [True], 'kinds_ok': [set(ENTREC)], 'capin': [PRIOR], 'capout': z3.Or(PRIOR, env['SAME']), 'type_ok': type_ok}


def spec_like(kinds, CL, PRIOR, **kw):
    return {'evaluated': [True], 'kinds_ok': [{'String', 'Never'}], 'capin': [PRIOR], 'capout': PRIOR, 'types': {'Bool'}}


def nodes():
    attr = Opaque('smol_str::SmolStr', 'the attribute name')
    pat = Opaque('ast::pattern::Pattern', 'the pattern')
    mk = lambda variant, names, second: (lambda k: Agg('variant', EK, variant, [k[0], second], names))
    return [('attribute access `.`', mk('GetAttr', ('expr', 'attr'), attr), spec_get, attr,
             lambda env: ('the operand is an entity or record, the attribute is declared and required or guarded', z3.And(z3.Or([env['K'][0] == KINDS.index(k) for k in ('Entity', 'Record')]), env['DECL'] >= 0, z3.Or(env['REQ'], env['INPRIOR'])))),
            ('`has`', mk('HasAttr', ('expr', 'attr'), attr), spec_has, attr,
             lambda env: ('the operand is an entity or record', z3.Or([env['K'][0] == KINDS.index(k) for k in ('Entity', 'Record')]))),
            ('`like`', mk('Like', ('expr', 'pattern'), pat), spec_like, attr,
             lambda env: ('the operand is a string', env['K'][0] == KINDS.index('String')))]


def families(ctx, battery):
    out = []
    for label, build, spec, attr, acc in nodes():
        def extra(ex, env, attr=attr):
            env['attr'] = attr
            attr_extra(ex, env)
        out.append((f'typing rule of {label}', lambda label=label, build=build, spec=spec, extra=extra, acc=acc: control_node(
            ctx, label, build, 1, spec, battery, None, extra=extra, accept_when=acc,
            why=f'the typing rule of {label} accepts an access evaluation can fail on (wrong operand type, undeclared attribute, optional attribute without a guard), or gives the node the wrong type / capability')))
    return out
