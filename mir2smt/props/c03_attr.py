"""C03, third slice - where capabilities are produced and consumed: attribute access `e.a` and `e has a` of SingleEnvTypechecker::typecheck, plus `like`.
Same harness as c03_control (one run of `typecheck` on the node, the child's own typecheck answering freely); what the schema says about the attribute is free:
declared or not, with a type of one of the kinds, required or optional, `may_have_attr` free.  The capability "child has a" is a marker: `prior.contains(it)` is a
free boolean, `singleton(it)` is the set containing exactly it; the arbitrary fact tracked by the pointwise set model either is this capability or another one.

Reference semantics (C02): `e.a` raises a type error unless e is an entity or record, and an attribute error when the value lacks `a`; a value of a validated
type lacks only optional attributes; `e has a` is true only if the value has `a`.
  e.a    accepted => child accepted with an entity / record type, `a` declared, and (required or the capability is among the prior facts); type = declared type;
         in strict mode nothing else is accepted (partial-schema mode may answer Never for an undeclared attribute of an open type);
  e has a accepted => child accepted with an entity / record type; type True only if the capability is among the prior facts, or `a` is a required attribute
         of a record type; type False only if `a` is undeclared and the type cannot have it; the only fact passed on is the capability itself;
  e like p accepted => child accepted with type String; type Bool; nothing passed on."""
import z3
from ..executor import IntV, BoolV, Agg, Opaque, Ref, NotEncoded, UNIT
from ..models import some, none
from .c06 import arc, EK
from .c03 import KINDS, mk_type, strip
from .c03_control import control_node, cap, cap_term, T, F

AKINDS = ['Long', 'Bool', 'True', 'Set', 'Entity']     # kinds of the declared attribute type
ENTREC = ('Entity', 'Record', 'Never')


def attr_extra(ex, env):
    REQ, INPRIOR, SAME, MAY = z3.Bool('attribute_is_required'), z3.Bool('capability_for_this_access_is_a_prior_fact'), z3.Bool('the_tracked_fact_is_this_capability'), z3.Bool('type_may_have_the_attribute')
    STRICT, PARTIAL, DECL = z3.Bool('strict_mode'), z3.Bool('partial_schema_mode'), z3.Int('declared_attribute_kind')
    env.update(REQ=REQ, INPRIOR=INPRIOR, SAME=SAME, MAY=MAY, STRICT=STRICT, PARTIAL=PARTIAL, DECL=DECL)
    # the tracked fact is in the prior set iff ... when it is this capability; strict mode is not partial-schema mode
    env['pre'] += [DECL >= -1, DECL < len(AKINDS), z3.Implies(SAME, INPRIOR == env['PRIOR']), z3.Not(z3.And(STRICT, PARTIAL))]
    gid, names = env['gid'], env['names']
    attr_id = env['attr'].id
    child_id = env['kids'][0].id
    THIS, WRONG = Opaque('validator::types::capability::Capability', 'the capability `child has attr`'), Opaque('validator::types::capability::Capability', 'a capability about another expression or attribute')

    def new_attribute(ex_, st, c, A):
        return THIS if (gid(ex_, st, A[0]) == child_id and gid(ex_, st, A[1]) == attr_id) else WRONG
    ex.stub(r'Capability::<.*>::new_attribute$|Capability::new_attribute$', new_attribute, 'Capability::new_attribute(child, attr): a marker (another marker if it is not about this child and this attribute)')
    ex.stub(r'CapabilitySet::<.*>::contains$|CapabilitySet::contains$', lambda ex_, st, c, A: BoolV(INPRIOR if gid(ex_, st, A[1]) == THIS.id else T), 'prior.contains(capability): free for the capability of this access (a wrong capability counts as always present)')
    ex.stub(r'CapabilitySet::<.*>::singleton$|CapabilitySet::singleton$', lambda ex_, st, c, A: cap(SAME if gid(ex_, st, A[0]) == THIS.id else T), 'CapabilitySet::singleton(capability)')
    ex.stub(r'SmolStr as Clone>::clone$', lambda ex_, st, c, A: strip(ex_, st, A[0]), 'SmolStr::clone')

    def lookup(ex_, st, c, A):
        def note(j):
            def go(s2):
                s2.notes['decl'] = j
            return go
        alts = [([DECL == -1], none(), note(-1))]
        for j, kn in enumerate(AKINDS):
            alts.append(([DECL == j], some(Agg('struct', 'validator::types::AttributeType', None, [arc(mk_type(kn, names)), BoolV(REQ)], ('attr_type', 'is_required'))), note(j)))
        return alts
    ex.stub(r'Type::lookup_attribute_type$', lookup, 'Type::lookup_attribute_type: undeclared, or declared with a type of one of the kinds ' + ', '.join(AKINDS) + ', required or optional')
    ex.stub(r'Type::may_have_attr$', lambda ex_, st, c, A: BoolV(MAY), 'Type::may_have_attr: free')
    ex.stub(r'Type::all_attributes$', lambda ex_, st, c, A: Agg('struct', '~vec', None, []), 'Type::all_attributes (for the suggestion in the error message)')
    ex.stub(r'fuzzy_search(::<.*>)?$', lambda ex_, st, c, A: none(), 'fuzzy_search: no suggestion')
    ex.stub(r'AttributeAccess::from_expr$', lambda ex_, st, c, A: Opaque('AttributeAccess', 'access path for the message'), 'AttributeAccess::from_expr (message)')
    ex.stub(r'ValidationMode::is_strict$', lambda ex_, st, c, A: BoolV(STRICT), 'validation mode: strict or not')
    ex.stub(r'ValidationMode::is_partial$', lambda ex_, st, c, A: BoolV(PARTIAL), 'validation mode: partial-schema or not')
    # entity / record kinds against the expected `any entity` / `any record` types: width subtyping in permissive mode - every entity type is an entity reference, every record a record
    ex.stub(r'EntityKind::is_subtype$', lambda ex_, st, c, A: BoolV(T), 'EntityKind::is_subtype(_, AnyEntity): every entity type is an entity reference')
    ex.stub(r'Attributes::is_subtype(_depth_only)?$', lambda ex_, st, c, A: BoolV(T), 'Attributes::is_subtype(_, {}): every record type is a record (width subtyping against the empty open record)')
    ex.stub(r'OpenTag::is_open$', lambda ex_, st, c, A: BoolV(z3.BoolVal(getattr(strip(ex_, st, A[0]), 'variant', 'OpenAttributes') == 'OpenAttributes')), 'OpenTag::is_open (the opaque record kind counts as open)')
    ex.stub(r'ExprBuilder::<.*>::new$', lambda ex_, st, c, A: Agg('struct', '~builder', None, [none()]), 'ExprBuilder::new: no annotation')
    ex.stub(r'ExprBuilder<.*> as (expr_builder::)?ExprBuilder>::(get_attr|has_attr|like)$|ExprBuilder::<.*>::(get_attr|has_attr|like)$',
            lambda ex_, st, c, A: (lambda b: Agg('struct', '~typed', None, [b.fields[0], Agg('struct', '~kids', None, [strip(ex_, st, a) for a in A[1:] if isinstance(strip(ex_, st, a), Agg) and strip(ex_, st, a).name == '~typed'])]) if isinstance(b, Agg) and b.name == '~builder' else None)(strip(ex_, st, A[0])), 'typed node built with the annotation of the builder')


def tag_extra(ex, env):
    INPRIOR, SAME, TAGS, LUBOK = z3.Bool('capability_for_this_tag_is_a_prior_fact'), z3.Bool('the_tracked_fact_is_this_capability'), z3.Bool('the_entity_types_have_tags'), z3.Bool('the_tag_types_have_a_least_upper_bound')
    env.update(INPRIOR=INPRIOR, SAME=SAME, TAGS=TAGS, LUBOK=LUBOK)
    env['pre'] += [z3.Implies(SAME, INPRIOR == env['PRIOR'])]
    gid, names = env['gid'], env['names']
    ids = [k.id for k in env['kids']]
    THIS, WRONG = Opaque('validator::types::capability::Capability', 'the capability `child0 hasTag child1`'), Opaque('validator::types::capability::Capability', 'a capability about other expressions')
    ex.stub(r'Capability::<.*>::new_borrowed_tag$|Capability::new_borrowed_tag$', lambda ex_, st, c, A: THIS if [gid(ex_, st, A[0]), gid(ex_, st, A[1])] == ids else WRONG,
            'Capability::new_borrowed_tag(child0, child1): a marker (another marker if it is not about these two children in this order)')
    ex.stub(r'CapabilitySet::<.*>::contains$|CapabilitySet::contains$', lambda ex_, st, c, A: BoolV(INPRIOR if gid(ex_, st, A[1]) == THIS.id else T), 'prior.contains(capability): free for the capability of this access (a wrong capability counts as always present)')
    ex.stub(r'CapabilitySet::<.*>::singleton$|CapabilitySet::singleton$', lambda ex_, st, c, A: cap(SAME if gid(ex_, st, A[0]) == THIS.id else T), 'CapabilitySet::singleton(capability)')
    TT = Opaque('HashSet<&Type>', 'the tag types of the entity types')
    ex.stub(r'Typechecker::<.*>::tag_types$|Typechecker::tag_types$', lambda ex_, st, c, A: TT, 'tag_types(kind): the set of declared tag types (empty or not: free)')
    ex.stub(r'HashSet::<&.*Type.*>::is_empty$', lambda ex_, st, c, A: BoolV(z3.Not(TAGS)), 'tag_types.is_empty(): free')
    ex.stub(r'HashSet<&.*Type.*> as Clone>::clone$', lambda ex_, st, c, A: TT, 'tag_types.clone()')

    def rlub(ex_, st, c, A):
        from ..models import ok, err
        return [([LUBOK], ok(mk_type('Long', names))), ([z3.Not(LUBOK)], err(Opaque('LubHelp', 'no least upper bound')))]
    ex.stub(r'Type::reduce_to_least_upper_bound(::<.*>)?$', rlub, 'Type::reduce_to_least_upper_bound(tag types): Long, or none')
    ex.stub(r'EntityLUB::get_single_entity$', lambda ex_, st, c, A: none(), 'EntityLUB::get_single_entity (for the error message only)')
    ex.stub(r'EntityKind::is_subtype$', lambda ex_, st, c, A: BoolV(T), 'EntityKind::is_subtype(_, AnyEntity): every entity type is an entity reference')
    ex.stub(r'ExprBuilder::<.*>::new$', lambda ex_, st, c, A: Agg('struct', '~builder', None, [none()]), 'ExprBuilder::new: no annotation')
    ex.stub(r'ExprBuilder<.*> as (expr_builder::)?ExprBuilder>::(get_tag|has_tag|binary_app)$|ExprBuilder::<.*>::(get_tag|has_tag|binary_app)$',
            lambda ex_, st, c, A: (lambda b: Agg('struct', '~typed', None, [b.fields[0], Agg('struct', '~kids', None, [strip(ex_, st, a) for a in A[1:] if isinstance(strip(ex_, st, a), Agg) and strip(ex_, st, a).name == '~typed'])]) if isinstance(b, Agg) and b.name == '~builder' else None)(strip(ex_, st, A[0])), 'typed node built with the annotation of the builder')


def spec_hastag(kinds, CL, PRIOR, notes=None, env=None):
    def type_ok(rk):
        if 'Never' in kinds or rk == 'Bool':
            return T
        if rk == 'True':          # always true: only when the capability is a prior fact
            return env['INPRIOR']
        if rk == 'False':         # never true: the entity types cannot have tags
            return z3.Not(env['TAGS'])
        return F
    return {'evaluated': [True, True], 'kinds_ok': [{'Entity', 'Never'}, {'String', 'Never'}], 'capin': [PRIOR, PRIOR], 'capout': z3.Or(PRIOR, env['SAME']), 'type_ok': type_ok}


def spec_gettag(kinds, CL, PRIOR, notes=None, env=None):
    return {'evaluated': [True, True], 'kinds_ok': [{'Entity', 'Never'}, {'String', 'Never'}], 'capin': [PRIOR, PRIOR], 'capout': PRIOR, 'types': {'Long'}, 'sound_extra': z3.And(env['INPRIOR'], env['TAGS'], env['LUBOK'])}


def eq_extra(ex, env):
    """`==`: what the operands are (literals or not, equal literals or not) and whether two entity types share a member are free"""
    LIT = [z3.Bool(f'child{i}_is_a_literal') for i in range(2)]
    LEQ, DISJ, STRICT, SEQ = z3.Bool('the_literals_are_equal'), z3.Bool('the_entity_types_share_no_member'), z3.Bool('strict_mode'), z3.Bool('strict_equality_accepts')
    env.update(LIT=LIT, LEQ=LEQ, DISJ=DISJ, STRICT=STRICT)
    gid, kidx = env['gid'], env['kidx']
    LK = 'ast::expr::ExprKind'
    cows = [Opaque('Cow<Expr>', f'child{i} (with the action variable replaced)') for i in range(2)]
    ex.stub(r'Typechecker::<.*>::replace_action_var_with_euid$', lambda ex_, st, c, A: cows[kidx[gid(ex_, st, A[1])]] if gid(ex_, st, A[1]) in kidx else None, 'replace_action_var_with_euid(child): the child')

    def deref(ex_, st, c, A):
        g = gid(ex_, st, A[0])
        for i, cw in enumerate(cows):
            if cw.id == g:
                return ex_.new_cell(st, Agg('struct', '~litprobe', None, [IntV(z3.IntVal(i), 'usize')]), 'cow target')
        return None
    ex.stub(r'Cow<.*Expr> as Deref>::deref$', deref, 'Cow::deref')

    def kind_probe(ex_, st, c, A):
        v = strip(ex_, st, A[0])
        if isinstance(v, Agg) and v.name == '~litprobe':
            i = int(str(z3.simplify(v.fields[0].t)))
            return [([LIT[i]], ex_.new_cell(st, Agg('variant', LK, 'Lit', [Opaque('ast::literal::Literal', f'literal {i}')]), 'kind')),
                    ([z3.Not(LIT[i])], ex_.new_cell(st, Agg('variant', LK, 'Var', [Agg('variant', 'ast::expr::Var', 'Principal', [])]), 'kind'))]
        return None
    ex.stub(r'Expr::<.*>::expr_kind$|Expr::expr_kind$', kind_probe, 'Expr::expr_kind of an operand: a literal or not (free)')
    ex.stub(r'Literal as PartialEq>::(eq|ne)$', lambda ex_, st, c, A: BoolV(LEQ if c.endswith('::eq') else z3.Not(LEQ)), 'Literal equality: free')
    ex.stub(r'EntityLUB::is_disjoint$', lambda ex_, st, c, A: BoolV(DISJ), 'EntityLUB::is_disjoint: free')
    ex.stub(r'EntityKind::as_entity_lub$', lambda ex_, st, c, A: (lambda k: some(k.fields[0]) if isinstance(k, Agg) and k.variant == 'Entity' else none())(strip(ex_, st, A[0])), 'EntityKind::as_entity_lub')
    ex.stub(r'ValidationMode::is_strict$', lambda ex_, st, c, A: BoolV(STRICT), 'validation mode: strict or not')
    TA = 'validator::typecheck::typecheck_answer::TypecheckAnswer'

    def strict_eq(ex_, st, c, A):
        def rej(s2):
            s2.notes['errors'] = s2.notes.get('errors', 0) + 1
        return [([SEQ], Agg('variant', TA, 'TypecheckSuccess', [A[2], cap(F)], ('expr_type', 'expr_capability'))), ([z3.Not(SEQ)], Agg('variant', TA, 'TypecheckFail', [A[2]], ('expr_recovery_type',)), rej)]
    ex.stub(r'Typechecker::<.*>::enforce_strict_equality$', strict_eq, 'enforce_strict_equality (strict mode): accepts the annotated node, or reports an error and rejects')
    ex.stub(r'ExprBuilder<.*> as (expr_builder::)?ExprBuilder>::(binary_app|is_eq)$|ExprBuilder::<.*>::(binary_app|is_eq)$',
            lambda ex_, st, c, A: (lambda b: Agg('struct', '~typed', None, [b.fields[0], Agg('struct', '~kids', None, [strip(ex_, st, a) for a in A[1:] if isinstance(strip(ex_, st, a), Agg) and strip(ex_, st, a).name == '~typed'])]) if isinstance(b, Agg) and b.name == '~builder' else None)(strip(ex_, st, A[0])), 'typed node built with the annotation of the builder')


def spec_eq(kinds, CL, PRIOR, notes=None, env=None):
    LIT, LEQ, DISJ = env['LIT'], env['LEQ'], env['DISJ']

    def type_ok(rk):
        if 'Never' in kinds or rk == 'Bool':
            return T
        both = z3.And(LIT)
        if rk == 'True':          # always true: two equal literals
            return z3.And(both, LEQ)
        if rk == 'False':         # never true: two different literals, or two entity types without a common member
            return z3.Or(z3.And(both, z3.Not(LEQ)), z3.And(z3.BoolVal(kinds[0] == 'Entity' and kinds[1] == 'Entity'), DISJ))
        return F
    allk = set(KINDS)
    return {'evaluated': [True, True], 'kinds_ok': [allk, allk], 'capin': [PRIOR, PRIOR], 'capout': PRIOR, 'type_ok': type_ok}


def is_extra(ex, env):
    """`is`: whether the operand's entity types contain the tested type, and whether they are exactly it, are free"""
    CONT, SG = z3.Bool('the_operand_types_contain_the_tested_type'), z3.Int('single_entity_type')       # SG: 0 several types, 1 exactly the tested type, 2 exactly another type
    env.update(CONT=CONT, SG=SG)
    env['pre'] += [SG >= 0, SG <= 2, z3.Implies(SG == 1, CONT), z3.Implies(SG == 2, z3.Not(CONT))]
    gid = env['gid']
    ET, OTHER = env['etype'], Opaque('ast::entity::EntityType', 'another entity type')
    ex.stub(r'EntityLUB::contains_entity_type$', lambda ex_, st, c, A: BoolV(CONT), 'EntityLUB::contains_entity_type(tested type): free')
    ex.stub(r'EntityLUB::get_single_entity$', lambda ex_, st, c, A: [([SG == 0], none()), ([SG == 1], some(ex_.new_cell(st, ET, 'et'))), ([SG == 2], some(ex_.new_cell(st, OTHER, 'et')))],
            'EntityLUB::get_single_entity: none, the tested type, or another type')
    ex.stub(r'EntityType as PartialEq>::(eq|ne)$', lambda ex_, st, c, A: BoolV(z3.BoolVal((gid(ex_, st, A[0]) == gid(ex_, st, A[1])) == c.endswith('::eq'))), 'EntityType equality by identity of the two opaque types')
    ex.stub(r'EntityType as Clone>::clone$', lambda ex_, st, c, A: strip(ex_, st, A[0]), 'EntityType::clone')
    ex.stub(r'EntityKind::is_subtype$', lambda ex_, st, c, A: BoolV(T), 'EntityKind::is_subtype(_, AnyEntity): every entity type is an entity reference')
    ex.stub(r'ExprBuilder<.*> as (expr_builder::)?ExprBuilder>::is_entity_type$|ExprBuilder::<.*>::is_entity_type$',
            lambda ex_, st, c, A: (lambda b: Agg('struct', '~typed', None, [b.fields[0], Agg('struct', '~kids', None, [strip(ex_, st, a) for a in A[1:] if isinstance(strip(ex_, st, a), Agg) and strip(ex_, st, a).name == '~typed'])]) if isinstance(b, Agg) and b.name == '~builder' else None)(strip(ex_, st, A[0])), 'typed node built with the annotation of the builder')


def spec_is(kinds, CL, PRIOR, notes=None, env=None):
    def type_ok(rk):
        if 'Never' in kinds or rk == 'Bool':
            return T
        if rk == 'True':          # always true: the operand can only be of the tested type
            return env['SG'] == 1
        if rk == 'False':         # never true: the operand cannot be of the tested type
            return z3.Not(env['CONT'])
        return F
    return {'evaluated': [True], 'kinds_ok': [{'Entity', 'Never'}], 'capin': [PRIOR], 'capout': PRIOR, 'type_ok': type_ok}


def in_extra(ex, env):
    """`in`: whether the operands are entity literals / the action variable, and whether an entity type of the left operand can be a descendant of one of the right operand, are free"""
    LLIT, LACT, RLIT, DESC, ACTK = z3.Bool('left_is_an_entity_literal_or_action'), z3.Bool('left_literal_is_an_action'), z3.Bool('right_is_entity_literals_or_actions'), z3.Bool('a_left_type_can_be_a_descendant_of_a_right_type'), z3.Int('action_in_literals_type')
    env.update(LLIT=LLIT, LACT=LACT, RLIT=RLIT, DESC=DESC, ACTK=ACTK)
    env['pre'] += [ACTK >= 0, ACTK <= 2]
    gid, kidx, names = env['gid'], env['kidx'], env['names']
    leuid = Opaque('ast::entity::EntityUID', 'the left literal')
    ex.stub(r'Typechecker::<.*>::euid_from_euid_literal_or_action$', lambda ex_, st, c, A: [([LLIT], some(arc(leuid))), ([z3.Not(LLIT)], none())] if gid(ex_, st, A[1]) in kidx else None, 'euid_from_euid_literal_or_action(left): an entity uid or none (free)')
    ex.stub(r'Typechecker::<.*>::euids_from_euid_literals_or_actions$', lambda ex_, st, c, A: [([RLIT], some(Agg('struct', '~vec', None, [arc(Opaque('ast::entity::EntityUID', 'a right literal'))]))), ([z3.Not(RLIT)], none())] if gid(ex_, st, A[1]) in kidx else None,
            'euids_from_euid_literals_or_actions(right): entity uids or none (free)')
    ex.stub(r'EntityUID::is_action$', lambda ex_, st, c, A: BoolV(LACT), 'EntityUID::is_action of the left literal: free')
    TA = 'validator::typecheck::typecheck_answer::TypecheckAnswer'
    BTY = 'validator::types::BoolType'

    def action_in(ex_, st, c, A):
        st.notes['action_route'] = True
        alts = []
        for j, b in enumerate(('True', 'False', 'AnyBool')):
            alts.append(([ACTK == j], Agg('variant', TA, 'TypecheckSuccess', [Agg('struct', '~typed', None, [some(Agg('variant', 'validator::types::Type', 'Bool', [Agg('variant', BTY, b, [])])), Agg('struct', '~kids', None, [strip(ex_, st, A[4]), strip(ex_, st, A[5])])]), cap(F)], ('expr_type', 'expr_capability'))))
        return alts
    ex.stub(r'Typechecker::<.*>::type_of_action_in_entity_literals(::<.*>)?$', action_in, 'type_of_action_in_entity_literals: decided from the action hierarchy of the schema (its own subject); any boolean type')
    ex.stub(r'Typechecker::<.*>::any_entity_type_decedent_of$', lambda ex_, st, c, A: BoolV(DESC), 'any_entity_type_decedent_of(left types, right types): free')
    ex.stub(r'EntityKind::is_subtype$', lambda ex_, st, c, A: BoolV(T), 'EntityKind::is_subtype(_, AnyEntity): every entity type is an entity reference')
    ex.stub(r'ExprBuilder<.*> as (expr_builder::)?ExprBuilder>::is_in$|ExprBuilder::<.*>::is_in$',
            lambda ex_, st, c, A: (lambda b: Agg('struct', '~typed', None, [b.fields[0], Agg('struct', '~kids', None, [strip(ex_, st, a) for a in A[1:] if isinstance(strip(ex_, st, a), Agg) and strip(ex_, st, a).name == '~typed'])]) if isinstance(b, Agg) and b.name == '~builder' else None)(strip(ex_, st, A[0])), 'typed node built with the annotation of the builder')
    ex.stub(r'Type as Into<Arc<.*Type>>>::into$|Arc<.*Type> as From<.*Type>>::from$', lambda ex_, st, c, A: arc(strip(ex_, st, A[0])), 'Type -> Arc<Type>')
    ex.stub(r'Arc<.*EntityUID> as AsRef<.*>>::as_ref$|Arc<.*EntityUID> as Deref>::deref$', lambda ex_, st, c, A: A[0], 'Arc deref')


def spec_in(kinds, CL, PRIOR, notes=None, env=None):
    action_route = bool(notes.get('action_route'))

    def type_ok(rk):
        if 'Never' in kinds or rk == 'Bool':
            return T
        if action_route:
            return T            # the singleton comes from type_of_action_in_entity_literals (the action hierarchy), outside this node
        if rk == 'False':       # never true: no entity type of the left operand can be a descendant of an entity type on the right
            return z3.Not(env['DESC'])
        return F
    return {'evaluated': [True, True], 'kinds_ok': [{'Entity', 'Never'}, {'Entity', 'SetEnt', 'Never'}], 'capin': [PRIOR, PRIOR], 'capout': PRIOR, 'type_ok': type_ok,
            # the action route is taken only for an action literal / variable on the left and literals on the right
            'sound_extra': z3.Implies(z3.BoolVal(action_route), z3.And(env['LLIT'], env['LACT'], env['RLIT']))}


def spec_get(kinds, CL, PRIOR, notes=None, env=None):
    d = notes.get('decl')
    declared = d is not None and d >= 0
    ok = z3.And(z3.BoolVal(declared), z3.Or(env['REQ'], env['INPRIOR']))
    # partial-schema validation (not strict): an undeclared attribute of a type that may have it gets the bottom type
    partial = z3.And(z3.BoolVal(d == -1), env['PARTIAL'], env['MAY'])
    types = {AKINDS[d]} if declared else ({'Never'} if d == -1 else set(KINDS) | {None})
    return {'evaluated': [True], 'kinds_ok': [set(ENTREC)], 'capin': [PRIOR], 'capout': PRIOR, 'types': types, 'sound_extra': z3.Or(ok, partial)}


def spec_has(kinds, CL, PRIOR, notes=None, env=None):
    d = notes.get('decl')
    k = kinds[0]
    declared = d is not None and d >= 0

    def type_ok(rk):
        if k == 'Never' or rk == 'Bool':
            return T
        if rk == 'True':          # `has` is always true: the capability is a prior fact, or a required attribute of a record (a record value always exists)
            return z3.And(z3.BoolVal(declared), z3.Or(env['INPRIOR'], z3.And(env['REQ'], z3.BoolVal(k == 'Record'))))
        if rk == 'False':         # `has` is never true: the type cannot have the attribute
            return z3.And(z3.BoolVal(d == -1), z3.Not(env['MAY']))
        return F
    return {'evaluated': [True], 'kinds_ok': [set(ENTREC)], 'capin': [PRIOR], 'capout': z3.Or(PRIOR, env['SAME']), 'type_ok': type_ok}


def spec_like(kinds, CL, PRIOR, **kw):
    return {'evaluated': [True], 'kinds_ok': [{'String', 'Never'}], 'capin': [PRIOR], 'capout': PRIOR, 'types': {'Bool'}}


def nodes():
    attr = Opaque('smol_str::SmolStr', 'the attribute name')
    pat = Opaque('ast::pattern::Pattern', 'the pattern')
    mk = lambda variant, names, second: (lambda k: Agg('variant', EK, variant, [k[0], second], names))
    return [('attribute access `.`', mk('GetAttr', ('expr', 'attr'), attr), spec_get, attr,
             lambda env: ('the operand is an entity or record, the attribute is declared and required or guarded', z3.And(z3.Or([env['K'][0] == KINDS.index(k) for k in ('Entity', 'Record')]), env['DECL'] >= 0, z3.Or(env['REQ'], env['INPRIOR'])))),
            ('`has`', mk('HasAttr', ('expr', 'attr'), attr), spec_has, attr,
             lambda env: ('the operand is an entity or record', z3.Or([env['K'][0] == KINDS.index(k) for k in ('Entity', 'Record')]))),
            ('`like`', mk('Like', ('expr', 'pattern'), pat), spec_like, attr,
             lambda env: ('the operand is a string', env['K'][0] == KINDS.index('String')))]


def tag_nodes():
    bi = lambda op: (lambda k: Agg('variant', EK, 'BinaryApp', [Agg('variant', 'ast::ops::BinaryOp', op, []), k[0], k[1]]))
    ent_str = lambda env: z3.And(env['K'][0] == KINDS.index('Entity'), env['K'][1] == KINDS.index('String'))
    return [('`hasTag`', bi('HasTag'), spec_hastag, lambda env: ('the operands are an entity and a string', ent_str(env))),
            ('`getTag`', bi('GetTag'), spec_gettag, lambda env: ('the operands are an entity and a string, the tag access is guarded and the entity types have tags', z3.And(ent_str(env), env['INPRIOR'], env['TAGS'], env['LUBOK'])))]


def families(ctx, battery):
    from .c03 import BASE_KINDS
    etype = Opaque('ast::entity::EntityType', 'the tested entity type')

    def is_x(ex, env):
        env['etype'] = etype
        is_extra(ex, env)
    def in_args(kids, heap):
        heap['K0'], heap['K1'] = kids[0], kids[1]
        return [Ref(0, ('local', 'K0')), Ref(0, ('local', 'K1'))]
    in_node = ('typing rule of `in`', lambda: control_node(ctx, '`in`', lambda k: Agg('variant', EK, 'BinaryApp', [Agg('variant', 'ast::ops::BinaryOp', 'In', []), k[0], k[1]]), 2, spec_in, battery, [BASE_KINDS, BASE_KINDS + ['SetEnt']], extra=in_extra,
                                                          accept_when=lambda env: ('the left operand is an entity and the right one an entity or a set of entities', z3.And(env['K'][0] == KINDS.index('Entity'), z3.Or(env['K'][1] == KINDS.index('Entity'), env['K'][1] == KINDS.index('SetEnt')))),
                                                          fname='typecheck_in', nargs=6, extra_args=in_args,
                                                          why='the typing rule of `in` gives a membership test the type False although it can be true, or accepts operands that are not entities'))
    out = [in_node, ('typing rule of `is`', lambda: control_node(ctx, '`is`', lambda k: Agg('variant', EK, 'Is', [k[0], etype], ('expr', 'entity_type')), 1, spec_is, battery, None, extra=is_x,
                                                         accept_when=lambda env: ('the operand is an entity', env['K'][0] == KINDS.index('Entity')),
                                                         why='the typing rule of `is` gives a type test a singleton type it does not always have, or accepts a non-entity operand')),
           ('typing rule of `==`', lambda: control_node(ctx, '`==`', lambda k: Agg('variant', EK, 'BinaryApp', [Agg('variant', 'ast::ops::BinaryOp', 'Eq', []), k[0], k[1]]), 2, spec_eq, battery, None, extra=eq_extra,
                                                         accept_when=lambda env: ('permissive mode', z3.Not(env['STRICT'])), fname='typecheck_binary',
                                                         why='the typing rule of `==` gives a comparison a singleton type it does not always have, or skips an operand'))]
    for label, build, spec, acc in tag_nodes():
        out.append((f'typing rule of {label}', lambda label=label, build=build, spec=spec, acc=acc: control_node(
            ctx, label, build, 2, spec, battery, None, extra=tag_extra, accept_when=acc, fname='typecheck_binary',
            why=f'the typing rule of {label} accepts a tag access evaluation can fail on (wrong operand types, no `hasTag` guard), or gives the node the wrong type / capability')))
    for label, build, spec, attr, acc in nodes():
        def extra(ex, env, attr=attr):
            env['attr'] = attr
            attr_extra(ex, env)
        out.append((f'typing rule of {label}', lambda label=label, build=build, spec=spec, extra=extra, acc=acc: control_node(
            ctx, label, build, 1, spec, battery, None, extra=extra, accept_when=acc,
            why=f'the typing rule of {label} accepts an access evaluation can fail on (wrong operand type, undeclared attribute, optional attribute without a guard), or gives the node the wrong type / capability')))
    return out
