"""C18 - SymCC agrees with evaluation on literal environments: the constant-folding arithmetic (engine M over the MIR of
cedar-policy-symcc).  `symcc::bitvec::BitVec` is executed from the MIR with num-bigint modelled as unbounded SMT integers
and compared with SMT-LIB's own definitions of the bit-vector operators (stated over naturals / integers); the factory's
signed-overflow predicates on literal operands are compared with Rust's i64::checked_* (what the evaluator uses, C02)."""
import z3
from ..framework import Kernel, run_kernel, And, Or, Not, Implies, If, Native, MachineryError, I64_MIN, I64_MAX
from ..executor import IntV, BoolV, Agg, Opaque, Ref, NotEncoded
from .. import bigint
from ..bigint import BigV

WIDTHS_QUICK = [1, 2, 8, 64]
WIDTHS_THOROUGH = [1, 2, 3, 8, 32, 64, 128]


# ---- SMT-LIB semantics over mathematical integers (dual mode: z3 terms or python ints)

def smod_(a, m):
    return a % m          # euclidean for m > 0 in both worlds


def to_int(x, w):
    return If(x >= (1 << (w - 1)), x - (1 << w), x)


CUR = {'ex': None}


def tdiv(a, b):
    """truncating quotient of naturals (b != 0 where it matters).  Over terms it is the executor's quotient variable for the same
    operands (fresh q, r + the defining lemma), so that specification and implementation talk about one quotient."""
    if isinstance(a, z3.ExprRef) or isinstance(b, z3.ExprRef):
        a = a if isinstance(a, z3.ExprRef) else z3.IntVal(a)
        b = b if isinstance(b, z3.ExprRef) else z3.IntVal(b)
        return CUR['ex'].divrem(a, b)[0]
    return a // b if b != 0 else 0


def trem(a, b):
    if isinstance(a, z3.ExprRef) or isinstance(b, z3.ExprRef):
        a = a if isinstance(a, z3.ExprRef) else z3.IntVal(a)
        b = b if isinstance(b, z3.ExprRef) else z3.IntVal(b)
        return CUR['ex'].divrem(a, b)[1]
    return a % b if b != 0 else 0


def spec_bin(op, w):
    M = 1 << w

    def neg(v):
        return smod_(M - v, M)

    def udiv(x, y):
        return If(y == 0, M - 1, tdiv(x, y))

    def urem(x, y):
        return If(y == 0, x, trem(x, y))

    def msb(v):
        return v >= (M >> 1)

    def f(x, y):
        if op == 'add':
            return smod_(x + y, M)
        if op == 'sub':
            return smod_(x - y, M)
        if op == 'mul':
            return smod_(x * y, M)
        if op == 'udiv':
            return udiv(x, y)
        if op == 'urem':
            return urem(x, y)
        if op == 'sdiv':       # SMT-LIB definition by sign cases
            return If(And(Not(msb(x)), Not(msb(y))), udiv(x, y), If(And(msb(x), Not(msb(y))), neg(udiv(neg(x), y)),
                      If(And(Not(msb(x)), msb(y)), neg(udiv(x, neg(y))), udiv(neg(x), neg(y)))))
        if op == 'srem':
            return If(And(Not(msb(x)), Not(msb(y))), urem(x, y), If(And(msb(x), Not(msb(y))), neg(urem(neg(x), y)),
                      If(And(Not(msb(x)), msb(y)), urem(x, neg(y)), neg(urem(neg(x), neg(y))))))
        if op == 'smod':
            # SMT-LIB: u = bvurem(|s|, |t|); result by the signs of s and t (u = 0 gives u).  Written per sign case so that each remainder
            # has syntactically plain operands (the same quotient / remainder variables as the implementation's path)
            def fin(u, case):
                return If(u == 0, u, case(u))
            return If(And(Not(msb(x)), Not(msb(y))), urem(x, y),
                      If(And(msb(x), Not(msb(y))), fin(urem(neg(x), y), lambda u: smod_(neg(u) + y, M)),
                         If(And(Not(msb(x)), msb(y)), fin(urem(x, neg(y)), lambda u: smod_(u + y, M)),
                            fin(urem(neg(x), neg(y)), lambda u: neg(u)))))
        raise KeyError(op)
    return f


def bv_arg(w, t):
    return Agg('struct', 'symcc::bitvec::BitVec', None, [IntV(z3.IntVal(w), 'u32'), BigV(t, False)], ('width', 'v'))


def decode_bv(w):
    def dec(ex, o):
        v = o.val
        if isinstance(v, Agg) and v.variant in ('Ok', 'Err'):
            if v.variant == 'Err':
                e = v.fields[0]
                return 'Err', [getattr(e, 'variant', None) or repr(e)[:30]]
            v = v.fields[0]
        if isinstance(v, Agg) and v.kind == 'struct' and len(v.fields) == 2 and isinstance(v.fields[1], BigV):
            return 'bv', [v.fields[0].t, v.fields[1].t]
        if isinstance(v, BoolV):
            return 'bool', [v.t]
        if isinstance(v, BigV):
            return 'int', [v.t]
        raise NotEncoded(f'result {v!r}')
    return dec


def native_bv(nat, req):
    a = nat.ask(req)
    if 'panic' in a:
        return 'panic', []
    if 'err' in a:
        e = a['err']
        tag = 'ShiftAmountTooLarge' if 'shift amount' in e else ('MismatchedWidths' if 'mismatched' in e else ('ExtractOutOfBounds' if 'extract' in e else e))
        return 'Err', [tag]
    r = a['ok']
    if 'nat' in r:
        return 'bv', [r['width'], int(r['nat'])]
    if 'bool' in r:
        return 'bool', [r['bool']]
    if 'int' in r:
        return 'int', [int(r['int'])]
    raise MachineryError(f'symcc replay answer {a}')


def boundary(w):
    M = 1 << w
    vs = {0, 1, 2, M - 1, M - 2, M >> 1, (M >> 1) - 1, (M >> 1) + 1, 3, 5, 7, 10, w, w - 1, w + 1, 1 << 32 if w > 32 else 1}
    return sorted(v for v in vs if 0 <= v < M)


def mk_overflows(w):
    def make(ex):
        ex.initial_heap = {'I': BigV(z3.Int('i'), True)}
        return {'i': z3.Int('i')}, [IntV(z3.IntVal(w), 'u32'), Ref(0, ('local', 'I'))], []
    return make


def kernels(ctx, widths):
    P = ctx.prog('symcc')
    nat = Native('dev', ctx.log, crate='replay-symcc', binname='verif-replay-symcc')
    ctx.extra_natives = getattr(ctx, 'extra_natives', []) + [nat]
    K = []

    def setup(ex):
        CUR['ex'] = ex
        bigint.install(ex, pow_bound=130)
        ex.from_wrappers.add('BitVecError')
    for w in widths:
        M = 1 << w

        def gen2(rand, w=w, M=M):
            b = boundary(w)
            return {'x': rand.choice(b) if rand.random() < 0.6 else rand.randrange(M), 'y': rand.choice(b) if rand.random() < 0.6 else rand.randrange(M)}
        pre2 = lambda x, y, M=M: And(x >= 0, x < M, y >= 0, y < M)
        for op in ('add', 'sub', 'mul', 'udiv', 'urem', 'sdiv', 'srem', 'smod'):
            f = P.method('symcc/bitvec.rs', op, nargs=2, arg0=r'&BitVec')

            def spec(ins, tag, vals, op=op, w=w):
                return tag == 'bv' and And(vals[0] == w, vals[1] == spec_bin(op, w)(ins['x'], ins['y']))

            def make(ex, w=w):
                x, y = z3.Int('x'), z3.Int('y')
                ex.initial_heap = {'X': bv_arg(w, x), 'Y': bv_arg(w, y)}
                return {'x': x, 'y': y}, [Ref(0, ('local', 'X')), Ref(0, ('local', 'Y'))], []
            K.append(Kernel(f'BitVec::{op}[w={w}]', f, [('x', 'nat'), ('y', 'nat')], None, decode_bv(w), spec, make=make, setup=setup, crate='symcc', pre=pre2, gen=gen2,
                            native=lambda n_, c, op=op, w=w: native_bv(nat, {'op': op, 'w': w, 'x': str(c['x']), 'y': str(c['y'])}), expect_tags=('bv',)))
        for op, cmp in (('slt', lambda a, b: a < b), ('sle', lambda a, b: a <= b), ('ult', None), ('ule', None)):
            f = P.method('symcc/bitvec.rs', op, nargs=2, arg0=r'&BitVec')

            def spec(ins, tag, vals, op=op, w=w):
                x, y = ins['x'], ins['y']
                if op in ('slt', 'sle'):
                    a, b = to_int(x, w), to_int(y, w)
                else:
                    a, b = x, y
                return tag == 'bool' and (vals[0] == ((a < b) if op.endswith('lt') else (a <= b)))

            def make(ex, w=w):
                x, y = z3.Int('x'), z3.Int('y')
                ex.initial_heap = {'X': bv_arg(w, x), 'Y': bv_arg(w, y)}
                return {'x': x, 'y': y}, [Ref(0, ('local', 'X')), Ref(0, ('local', 'Y'))], []
            K.append(Kernel(f'BitVec::{op}[w={w}]', f, [('x', 'nat'), ('y', 'nat')], None, decode_bv(w), spec, make=make, setup=setup, crate='symcc', pre=pre2, gen=gen2,
                            native=lambda n_, c, op=op, w=w: native_bv(nat, {'op': op, 'w': w, 'x': str(c['x']), 'y': str(c['y'])}), expect_tags=('bool',)))
        for op in ('neg', 'not'):
            f = P.method('symcc/bitvec.rs', op, nargs=1, arg0=r'&BitVec')

            def spec(ins, tag, vals, op=op, w=w, M=M):
                return tag == 'bv' and And(vals[0] == w, vals[1] == (smod_(M - ins['x'], M) if op == 'neg' else (M - 1 - ins['x'])))

            def make(ex, w=w):
                x = z3.Int('x')
                ex.initial_heap = {'X': bv_arg(w, x)}
                return {'x': x}, [Ref(0, ('local', 'X'))], []
            K.append(Kernel(f'BitVec::{op}[w={w}]', f, [('x', 'nat')], None, decode_bv(w), spec, make=make, setup=setup, crate='symcc', pre=lambda x, M=M: And(x >= 0, x < M),
                            gen=lambda rand, w=w, M=M: {'x': rand.choice(boundary(w)) if rand.random() < 0.6 else rand.randrange(M)},
                            native=lambda n_, c, op=op, w=w: native_bv(nat, {'op': op, 'w': w, 'x': str(c['x'])}), expect_tags=('bv',)))
        # to_int: two's complement value; of_int: i mod 2^w; overflows: outside [-2^(w-1), 2^(w-1))
        f = P.method('symcc/bitvec.rs', 'to_int', nargs=1, arg0=r'&BitVec')

        def make(ex, w=w):
            x = z3.Int('x')
            ex.initial_heap = {'X': bv_arg(w, x)}
            return {'x': x}, [Ref(0, ('local', 'X'))], []
        K.append(Kernel(f'BitVec::to_int[w={w}]', f, [('x', 'nat')], None, decode_bv(w), lambda ins, tag, vals, w=w: tag == 'int' and (vals[0] == to_int(ins['x'], w)),
                        make=make, setup=setup, crate='symcc', pre=lambda x, M=M: And(x >= 0, x < M),
                        gen=lambda rand, w=w, M=M: {'x': rand.choice(boundary(w)) if rand.random() < 0.6 else rand.randrange(M)},
                        native=lambda n_, c, w=w: native_bv(nat, {'op': 'to_int', 'w': w, 'x': str(c['x'])}), expect_tags=('int',)))
        f = P.method('symcc/bitvec.rs', 'of_int', nargs=2)
        K.append(Kernel(f'BitVec::of_int[w={w}]', f, [('i', 'int')], None, decode_bv(w), lambda ins, tag, vals, w=w, M=M: tag == 'bv' and And(vals[0] == w, vals[1] == smod_(ins['i'], M)),
                        make=lambda ex, w=w: ({'i': z3.Int('i')}, [IntV(z3.IntVal(w), 'u32'), BigV(z3.Int('i'), True)], []), setup=setup, crate='symcc',
                        pre=lambda i, M=M: And(i >= -4 * M, i <= 4 * M),
                        gen=lambda rand, M=M: {'i': rand.choice([0, 1, -1, M, -M, M - 1, -M + 1, M >> 1, -(M >> 1), (M >> 1) - 1, -(M >> 1) - 1, rand.randint(-4 * M, 4 * M)])},
                        native=lambda n_, c, w=w: native_bv(nat, {'op': 'of_int', 'w': w, 'x': str(c['i'])}), expect_tags=('bv',)))
        f = P.method('symcc/bitvec.rs', 'overflows', nargs=2)
        K.append(Kernel(f'BitVec::overflows[w={w}]', f, [('i', 'int')], None, decode_bv(w),
                        lambda ins, tag, vals, M=M: tag == 'bool' and (vals[0] == Or(ins['i'] < -(M >> 1), ins['i'] > (M >> 1) - 1)),
                        make=mk_overflows(w),
                        setup=setup, crate='symcc', gen=lambda rand, M=M: {'i': rand.choice([0, (M >> 1) - 1, M >> 1, -(M >> 1), -(M >> 1) - 1, M, -M, rand.randint(-2 * M, 2 * M)])},
                        native=lambda n_, c, w=w: native_bv(nat, {'op': 'overflows', 'w': w, 'x': str(c['i'])}), expect_tags=('bool',)))
    return K


def factory_kernels(ctx, widths):
    """the term factory's signed-overflow predicates on LITERAL bit-vector operands: true exactly when the exact integer result of the
    operation on the two's-complement values does not fit the width - for w = 64 that is exactly when i64::checked_{add,sub,mul,neg}
    (what evaluator::binary_arith / unary_app use) returns None"""
    P = ctx.prog('symcc')
    nat = ctx.extra_natives[0]
    K = []

    def setup(ex):
        CUR['ex'] = ex
        bigint.install(ex, pow_bound=130)
        ex.from_wrappers.add('BitVecError')

    def lit(w, t):
        return Agg('variant', 'symcc::term::Term', 'Prim', [Agg('variant', 'symcc::term::TermPrim', 'Bitvec', [bv_arg(w, t)])])

    def dec(ex, o):
        v = o.val
        try:
            p = v.fields[0]
            if v.variant == 'Prim' and p.variant == 'Bool':
                return 'bool', [p.fields[0].t]
        except (AttributeError, IndexError):
            pass
        raise NotEncoded(f'factory result {v!r}')
    for w in widths:
        M = 1 << w
        lo, hi = -(M >> 1), (M >> 1) - 1
        for name, f2 in (('bvsaddo', lambda a, b: a + b), ('bvssubo', lambda a, b: a - b), ('bvsmulo', lambda a, b: a * b)):
            f = P.method('symcc/factory.rs', name, nargs=2)

            def spec(ins, tag, vals, f2=f2, w=w, lo=lo, hi=hi):
                e = f2(to_int(ins['x'], w), to_int(ins['y'], w))
                return tag == 'bool' and (vals[0] == Or(e < lo, e > hi))
            K.append(Kernel(f'factory::{name}[w={w}]', f, [('x', 'nat'), ('y', 'nat')], None, dec, spec,
                            make=lambda ex, w=w: ({'x': z3.Int('x'), 'y': z3.Int('y')}, [lit(w, z3.Int('x')), lit(w, z3.Int('y'))], []),
                            setup=setup, crate='symcc', pre=lambda x, y, M=M: And(x >= 0, x < M, y >= 0, y < M),
                            gen=lambda rand, w=w, M=M: {'x': rand.choice(boundary(w)) if rand.random() < 0.7 else rand.randrange(M), 'y': rand.choice(boundary(w)) if rand.random() < 0.7 else rand.randrange(M)},
                            native=lambda n_, c, name=name, w=w: native_bv(nat, {'op': name, 'w': w, 'x': str(c['x']), 'y': str(c['y'])}), expect_tags=('bool',)))
        f = P.method('symcc/factory.rs', 'bvnego', nargs=1)
        K.append(Kernel(f'factory::bvnego[w={w}]', f, [('x', 'nat')], None, dec,
                        lambda ins, tag, vals, w=w, lo=lo, hi=hi: tag == 'bool' and (vals[0] == Or(-to_int(ins['x'], w) < lo, -to_int(ins['x'], w) > hi)),
                        make=lambda ex, w=w: ({'x': z3.Int('x')}, [lit(w, z3.Int('x'))], []), setup=setup, crate='symcc', pre=lambda x, M=M: And(x >= 0, x < M),
                        gen=lambda rand, w=w, M=M: {'x': rand.choice(boundary(w)) if rand.random() < 0.7 else rand.randrange(M)},
                        native=lambda n_, c, w=w: native_bv(nat, {'op': 'bvnego', 'w': w, 'x': str(c['x'])}), expect_tags=('bool',)))
    return K


def run(ctx):
    widths = WIDTHS_QUICK if ctx.tier == 'quick' else WIDTHS_THOROUGH
    ks = []
    ctx.guarded('C18/locate-kernels', lambda: ks.extend(kernels(ctx, widths)))
    ctx.guarded('C18/locate-factory-kernels', lambda: ks.extend(factory_kernels(ctx, [w for w in widths if w in (8, 64)])))
    from . import c18_verify
    ctx.run_families([(K.name, (lambda K=K: run_kernel(ctx, K))) for K in ks] + c18_verify.families(ctx))
    ctx.guarded('native literal-environment battery', lambda: c18_verify.literal_battery(ctx, 'native literal-environment battery', 'cedar-policy-symcc: verification conditions on a literal environment vs the concrete authorizer', 'native literal-environment battery'))
    for n in getattr(ctx, 'extra_natives', []):
        n.close()
    ctx.bounds += [f'verification conditions: all 11 builders on every literal valuation of their arguments (3 per policy, 2 per policy set); native battery: {len(c18_verify.literal_cases())} (request, store, policy pair) cases x up to 11 conditions through the public API',
                   f'bit-vector widths {widths}; operands: every natural below 2^w (Int-mode, no bit-blasting); of_int / overflows arguments within 4 * 2^w',
                   'shift amounts: exact below 130, abstract multiple of 2^130 above (stated model bound)']
    ctx.assumptions += ['num-bigint operations modelled as unbounded SMT integers (mir2smt/bigint.py): + - * / % pow(2, k) cmp to_bigint to_biguint to_u32, xor against an all-ones mask',
                        'oracle = the SMT-LIB definitions of the bit-vector operators over naturals / integers, written in the obligations',
                        'verification-condition builders (symccopt/verifier.rs + the factory functions not / eq / and / or / implies / is_some / some_of executed from the MIR): the policy term is none or some(b), the policy-set term a '
                        'boolean literal, b symbolic; the well-formedness asserts (enforce_*) are a stub returning none; that compile() of a policy on a literal environment yields the literal its evaluation prescribes is NOT covered '
                        '(native literal-environment battery only), nor is SymEnv::from_concrete_env']
    return ctx.finish('Solver-decided agreement of SymCC\'s constant-folding arithmetic (symcc::bitvec::BitVec, executed from the MIR of cedar-policy-symcc with num-bigint as SMT integers) with the SMT-LIB semantics of the '
                      'bit-vector operators at the stated widths; natively replayed through cedar_policy_symcc::bitvec::BitVec. And the verification-condition builders of symccopt/verifier.rs: on literal terms the asserts reduce to '
                      'constants and are satisfiable exactly when the named condition is violated (never errors / always matches / never matches / matches-equivalent, -implies, -disjoint / always allows / always denies / implies / equivalent / disjoint).')
