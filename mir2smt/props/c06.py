"""C06 - structured formats are lossless (engine M, the expression level of the JSON policy format only): for every kind of AST expression node the conversion
AST -> EST (ast::Expr::try_into_expr::<est::Builder>: the generic walker, ExprBuilder::{unary_app, binary_app} default dispatch, the est::Builder methods) followed by
EST -> AST (est::Expr::try_into_ast and the real ast::Expr constructors) gives back a node of the same kind, the same operator, with the children in the same
positions - children are opaque and assumed to round-trip (structural induction => expressions of any depth).  Both directions are executed from the MIR; the second
run starts from the value the first one produced."""
import z3
from ..executor import IntV, BoolV, Agg, Opaque, Ref, NotEncoded, UNIT
from ..models import ok, err, some, none
from .. import containers as C

T, F = z3.BoolVal(True), z3.BoolVal(False)
EK = 'ast::expr::ExprKind'
AEX = 'ast::expr::Expr'
EEX = 'est::expr::Expr'
import os
HAVOC = not os.environ.get('C06_NOHAVOC')
BINOPS = ['Eq', 'Less', 'LessEq', 'Add', 'Sub', 'Mul', 'In', 'Contains', 'ContainsAll', 'ContainsAny', 'GetTag', 'HasTag']
UNOPS = ['Not', 'Neg', 'IsEmpty']


def arc(x):
    return Agg('struct', 'Arc', None, [x], ('inner',))


def ast_expr(kind):
    return Agg('struct', AEX, None, [kind, none(), UNIT], ('expr_kind', 'source_loc', 'data'))


def strip(ex, st, v, n=10):
    """look through references and Arc / Box wrappers"""
    while n > 0:
        n -= 1
        if isinstance(v, Ref):
            v = ex.read(st, v.fid, v.place)
        elif isinstance(v, Agg) and v.name in ('Arc', 'Box') and len(v.fields) == 1:
            v = v.fields[0]
        else:
            break
    return v


def shape(ex, st, v, tok):
    """python description of an AST value: node kind, operator, children (token names), payload identities"""
    v = strip(ex, st, v)
    if isinstance(v, Opaque):
        return ('tok', tok.get(v.id, f'?{v.what}'))
    if isinstance(v, Agg) and v.name and v.name.split('<')[0].endswith('::Expr') and v.kind == 'struct' and len(v.fields) == 3:
        return shape(ex, st, v.fields[0], tok)
    if isinstance(v, Agg) and v.kind == 'variant':
        return (v.variant,) + tuple(shape(ex, st, f, tok) for f in v.fields)
    if isinstance(v, Agg) and v.name in ('~vec', '~btree', '~cmap', '~hmap'):
        items = [shape(ex, st, f, tok) for f in v.fields]
        return (v.name,) + tuple(sorted(items, key=str) if v.name != '~vec' else items)
    if isinstance(v, Agg) and v.kind == 'tuple':
        return ('tuple',) + tuple(shape(ex, st, f, tok) for f in v.fields)
    if isinstance(v, Agg):
        return (v.name,) + tuple(shape(ex, st, f, tok) for f in v.fields)
    if isinstance(v, BoolV):
        return ('bool', str(z3.simplify(v.t)))
    return ('?', repr(v)[:40])


def install_maps(ex):
    """small BTreeMap / HashMap values with symbolic keys (record fields, the one-entry map of an extension call)"""
    from ..models import key_eq

    def bt(st, a):
        v = C.res(ex, st, a)
        return v if isinstance(v, Agg) and v.name in ('~btree', '~hmap') else None
    ex.stub(r'BTreeMap::<.*>::new$', lambda ex_, st, c, A: Agg('struct', '~btree', None, []), 'BTreeMap::new')

    def entry(ex_, st, c, A):
        m = bt(st, A[0])
        if m is None:
            return None
        r = C.base_ref(ex_, st, A[0])
        alts, neg = [], []
        for i, e in enumerate(m.fields):
            q = key_eq(ex_, st, e.fields[0], A[1])
            alts.append((neg + [q], Agg('variant', 'BTreeEntry', 'Occupied', [Agg('struct', '~bentry', None, [r, e.fields[0]])])))
            neg = neg + [z3.Not(q)]
        alts.append((neg, Agg('variant', 'BTreeEntry', 'Vacant', [Agg('struct', '~bentry', None, [r, A[1]])])))
        return alts
    ex.stub(r'BTreeMap::<.*>::entry$', entry, 'BTreeMap::entry: occupied iff the key equals an existing key (symbolic key identities)')

    def vinsert(ex_, st, c, A):
        e = C.res(ex_, st, A[0])
        if not (isinstance(e, Agg) and e.name == '~bentry'):
            return None
        r, k = e.fields[0], e.fields[1]
        m = ex_.read(st, r.fid, r.place)
        new = Agg('struct', m.name, None, list(m.fields) + [Agg('tuple', None, None, [C.res(ex_, st, k), A[1]])])
        return [([], Opaque('&mut V', 'inserted value'), lambda s2: ex_.write(s2, r.fid, r.place, new))]
    ex.stub(r'VacantEntry::<.*>::insert$', vinsert, 'VacantEntry::insert')

    def binsert(ex_, st, c, A):
        m = bt(st, A[0])
        if m is None:
            return None
        r = C.base_ref(ex_, st, A[0])
        alts, neg = [], []
        for i, e in enumerate(m.fields):
            q = key_eq(ex_, st, e.fields[0], A[1])
            ents = list(m.fields)
            ents[i] = Agg('tuple', None, None, [e.fields[0], A[2]])
            alts.append((neg + [q], some(e.fields[1]), (lambda s2, ents=ents: ex_.write(s2, r.fid, r.place, Agg('struct', m.name, None, ents)))))
            neg = neg + [z3.Not(q)]
        new = Agg('struct', m.name, None, list(m.fields) + [Agg('tuple', None, None, [C.res(ex_, st, A[1]), A[2]])])
        alts.append((neg, none(), lambda s2: ex_.write(s2, r.fid, r.place, new)))
        return alts
    ex.stub(r'BTreeMap::<.*>::insert$', binsert, 'BTreeMap::insert (symbolic key identities)')
    ex.stub(r'OccupiedEntry::<.*>::key$', lambda ex_, st, c, A: (lambda e: e.fields[1] if isinstance(e, Agg) and e.name == '~bentry' else None)(C.res(ex_, st, A[0])), 'OccupiedEntry::key')

    def hm_from(ex_, st, c, A):
        a = C.res(ex_, st, A[0])
        if isinstance(a, Agg) and a.kind == 'array':
            return Agg('struct', '~hmap', None, list(a.fields))
        return None
    ex.stub(r'HashMap<.*> as From<\[.*\]>>::from$', hm_from, 'HashMap::from([(k, v); n])')
    ex.stub(r'HashMap::<.*>::len$', lambda ex_, st, c, A: (lambda m: None if m is None else ex_.const_int(len(m.fields), 'usize'))(bt(st, A[0])), 'HashMap::len')
    ex.stub(r'<(std::collections::)?(HashMap|BTreeMap)<.*> as IntoIterator>::into_iter$', lambda ex_, st, c, A: Agg('struct', '~vec_iter', None, list(A[0].fields)) if isinstance(A[0], Agg) and A[0].name in ('~btree', '~hmap') else None,
            'map into_iter (entry order)')
    ex.stub(r' as IntoIterator>::into_iter$', lambda ex_, st, c, A: Agg('struct', '~vec_iter', None, list(A[0].fields)) if isinstance(A[0], Agg) and A[0].name in ('~vec', '~hmap', '~btree') else None, 'Vec / map (passed as impl IntoIterator)::into_iter')


def round_trip(ctx, label, build, fmt='EST'):
    P = ctx.prog('core')
    f_ast = P.method('ast/expr.rs', 'try_into_expr', nargs=1, arg0=r'ast::expr::Expr<T>$')
    if fmt == 'EST':
        f_est = P.method('est/expr.rs', 'try_into_ast', nargs=2)
        builder, EEX_ = 'est::expr::Builder', EEX
    else:
        f_est = P.method('pst/ast_conversions.rs', 'into_expr', nargs=1)
        builder, EEX_ = 'pst::expr::PstBuilder', 'pst::expr::Expr'
    ctx.use(f_ast)
    ctx.use(f_est)
    # ---------------- AST -> EST
    ex = ctx.new_exec('core')
    ex.havoc_unknown = HAVOC
    ex.max_paths = 400
    ex.from_wrappers.add('ExpressionConstructionError')
    install_maps(ex)
    C.install(ex)
    kids = [Opaque(AEX, f'child{i}') for i in range(3)]
    ests = [Opaque(EEX_, f'{fmt} of child{i}') for i in range(3)]
    back = [Opaque(AEX, f'child{i} (round-tripped)') for i in range(3)]
    payload = {k: Opaque(t, k) for k, t in (('attr', 'smol_str::SmolStr'), ('pattern', 'ast::pattern::Pattern'), ('entity_type', 'ast::entity::EntityType'), ('fn_name', 'ast::name::Name'),
                                             ('var', 'ast::expr::Var'), ('slot', 'ast::slot::SlotId'), ('key0', 'smol_str::SmolStr'), ('key1', 'smol_str::SmolStr'))}
    tok = {k.id: f'child{i}' for i, k in enumerate(kids)}
    tok.update({k.id: f'child{i}' for i, k in enumerate(back)})
    tok.update({v.id: k for k, v in payload.items()})
    node = build(kids, payload)
    from ..models import key_id
    distinct = key_id(payload['key0']) != key_id(payload['key1'])          # the fields of a record (a BTreeMap) have distinct names
    ex.invariants.append(distinct)
    want = shape(ex, None, node, tok) if False else None
    kid_idx = {k.id: i for i, k in enumerate(kids)}

    def rec_ast(ex_, st, c, A):
        x = strip(ex_, st, A[0])
        i = kid_idx.get(getattr(x, 'id', None))
        if i is None:
            return None
        return ok(ests[i])
    ex.stub(r'ast::expr::<impl at [^>]*>::try_into_expr$|ast::expr::Expr::<.*>::try_into_expr::<', rec_ast, 'recursive AST -> EST conversion of child i: its EST (induction hypothesis), logged')
    # leaves whose text form is out of reach: names / types / patterns travel as opaque strings (printing and re-parsing them is C05)
    est_pat, est_ty, est_fn = Opaque('Vec<est::expr::PatternElem>', 'pattern as EST elements'), Opaque('smol_str::SmolStr', 'entity type as text'), Opaque('smol_str::SmolStr', 'function name as text')
    tok.update({est_pat.id: 'pattern', est_ty.id: 'entity_type', est_fn.id: 'fn_name'})
    ex.stub(r'Vec<.*PatternElem> as From<.*Pattern>>::from$|Pattern as Into<Vec<.*PatternElem>>>::into$', lambda ex_, st, c, A: est_pat if getattr(strip(ex_, st, A[0]), 'id', None) == payload['pattern'].id else None, 'ast::Pattern -> EST pattern elements (opaque; the element conversion is not decided)')
    ex.stub(r'(EntityType|Name) as (ToSmolStr|ToString)>::(to_smolstr|to_string)$|<T as (ToSmolStr|ToString)>::(to_smolstr|to_string)$', lambda ex_, st, c, A: {payload['entity_type'].id: est_ty, payload['fn_name'].id: est_fn}.get(getattr(strip(ex_, st, A[0]), 'id', None)),
            'printing of an entity type / function name (opaque text; printing and parsing names is C05)')
    ex.stub(r'::Data as Default>::default$', lambda ex_, st, c, A: UNIT, 'ExprBuilder::Data = () for the EST builder')
    ex.stub(r'<(smol_str::)?SmolStr as ToString>::to_string$', lambda ex_, st, c, A: strip(ex_, st, A[0]), 'SmolStr::to_string (the same text)')
    pst_ty = Opaque('pst::expr::EntityType', 'entity type (PST)')
    tok[pst_ty.id] = 'entity_type'
    if fmt == 'PST':
        # the PST has its own EntityType; its conversion pair is a leaf here (token that converts back to the same type)
        ex.stub(r'entity::EntityType as Into<pst::(expr::)?EntityType>>::into$|pst::(expr::)?EntityType as From<.*entity::EntityType>>::from$',
                lambda ex_, st, c, A: pst_ty if getattr(strip(ex_, st, A[0]), 'id', None) == payload['entity_type'].id else None, 'entity type -> PST entity type (token)')
    heap = {'N': ast_expr(node)}
    outs = ex.run(f_ast, [ast_expr(node)], heap=heap, subst={'T': '()', 'B': builder})
    ctx.absorb(ex)
    nm = f'AST -> {fmt} -> AST[{label}]'
    ctx.panic_summary(nm + f' (to {fmt})', outs, ex)
    rets = [o for o in outs if o.kind == 'ret']
    if len(rets) != 1 or not (isinstance(rets[0].val, Agg) and rets[0].val.variant == 'Ok'):
        raise NotEncoded(f'{nm}: AST -> EST gave {[(o.kind, repr(o.val)[:80]) for o in outs][:3]}')
    est_val = rets[0].val.fields[0]
    if os.environ.get('C06_DEBUG'):
        print('EST', label, repr(est_val)[:400])
    # ---------------- EST -> AST, starting from the value just produced
    ex2 = ctx.new_exec('core')
    ex2.havoc_unknown = HAVOC
    ex2.max_paths = 400
    ex2.from_wrappers.add('ExpressionConstructionError')
    install_maps(ex2)
    C.install(ex2)
    ex2.stub(r'::Data as Default>::default$', lambda ex_, st, c, A: UNIT, 'ExprBuilder::Data = () for the AST builder')
    ex2.invariants.append(distinct)
    est_idx = {e.id: i for i, e in enumerate(ests)}

    def rec_est(ex_, st, c, A):
        x = strip(ex_, st, A[0])
        i = est_idx.get(getattr(x, 'id', None))
        if i is None:
            return None
        return ok(back[i])
    ex2.stub(r'est::expr::<impl at [^>]*>::try_into_ast$|est::expr::Expr::try_into_ast$', (lambda ex_, st, c, A: rec_est(ex_, st, c, A)) if fmt == 'EST' else (lambda ex_, st, c, A: None), 'recursive EST -> AST conversion of the EST of child i: the child again (induction hypothesis), logged')
    if fmt == 'PST':
        ex2.stub(r'pst::(expr::)?EntityType as Into<.*entity::EntityType>>::into$|entity::EntityType as From<pst::(expr::)?EntityType>>::from$',
                 lambda ex_, st, c, A: payload['entity_type'] if getattr(strip(ex_, st, A[0]), 'id', None) == pst_ty.id else None, 'PST entity type -> the entity type it came from (token)')
        ex2.stub(r'<impl pst::expr::Expr>::into_expr|pst::ast_conversions::<impl at [^>]*>::into_expr$|pst::expr::Expr::into_expr::<', lambda ex_, st, c, A: (lambda r: None if r is None else r.fields[0])(rec_est(ex_, st, c, A)), 'recursive PST -> AST conversion of the PST of child i: the child again (induction hypothesis), logged')

    ex2.stub(r'Pattern as From<&\[.*PatternElem\]>>::from$', lambda ex_, st, c, A: payload['pattern'], 'EST pattern elements -> ast::Pattern (opaque)')
    ex2.stub(r'Vec::<.*PatternElem>::as_slice$', lambda ex_, st, c, A: A[0], 'Vec::as_slice')
    ex2.stub(r'(^|::)elements_into_ast_pattern::<', lambda ex_, st, c, A: payload['pattern'], 'PST pattern elements -> ast::Pattern (opaque)')
    ex2.stub(r'SmolStr as From<(std::string::)?String>>::from$|String as Into<(smol_str::)?SmolStr>>::into$', lambda ex_, st, c, A: A[0], 'String -> SmolStr (the same text)')
    ex2.stub(r'EntityType( as [\w:]+)?>?::from_normalized_str$', lambda ex_, st, c, A: ok(payload['entity_type']) if getattr(strip(ex_, st, A[0]), 'id', None) == est_ty.id else None, 'parsing the printed entity type gives the type back (C05)')
    ex2.stub(r'Name( as [\w:]+)?>?::from_normalized_str$', lambda ex_, st, c, A: ok(payload['fn_name']) if getattr(strip(ex_, st, A[0]), 'id', None) == est_fn.id else (print('DBG from_normalized_str', A, strip(ex_, st, A[0]), est_fn) if os.environ.get('C06_DEBUG') else None), 'parsing the printed function name gives the name back (C05)')
    ex2.stub(r'SmolStr::as_str$|<(smol_str::)?SmolStr as Deref>::deref$', lambda ex_, st, c, A: A[0], 'SmolStr as str')
    ex2.stub(r'is_known_extension_func_name$', lambda ex_, st, c, A: BoolV(T), 'the function is a known extension function (precondition: the policy validated)')
    if fmt == 'EST':
        outs2 = ex2.run(f_est, [est_val, Ref(0, ('local', 'ID'))], heap={'ID': Opaque('ast::policy::PolicyID', 'policy id')})
    else:
        outs2 = ex2.run(f_est, [est_val], subst={'B': 'ast::expr::ExprBuilder<()>'})
    ctx.absorb(ex2)
    ctx.panic_summary(nm + ' (back to AST)', outs2, ex2)
    rets2 = [o for o in outs2 if o.kind == 'ret']
    orig = shape(ex, rets[0].st, node, tok)
    def result_of(o):
        if fmt == 'EST':
            return o.val.fields[0] if isinstance(o.val, Agg) and o.val.variant == 'Ok' else None
        return o.val
    last = None
    for o in rets2:
        r_ = result_of(o)
        last = shape(ex2, o.st, r_, tok) if r_ is not None else ('error', repr(o.val)[:80])
    # AST invariant (every AST is built through ExprBuilder, whose `and` / `or` fold two boolean literals): a && / || node never has two boolean literals as children
    pre = []
    if label in ('&&', '||'):
        def is_bool_lit(tk):
            kd = ex2.opaque_field(tk, None, 0, 'ast::expr::ExprKind')
            lt = ex2.opaque_field(kd, 'Lit', 0, 'ast::literal::Literal')
            return z3.And(ex2.is_variant(kd, 'Lit'), ex2.is_variant(lt, 'Bool'))
        pre = [z3.Not(z3.And(is_bool_lit(back[0]), is_bool_lit(back[1])))]
    # every path must return the original node: the disjunction of (path taken and not the same node) is unsatisfiable
    bad = [z3.And(o.pc + [z3.BoolVal(not (result_of(o) is not None and shape(ex2, o.st, result_of(o), tok) == orig))]) for o in rets2]
    ctx.decide(f'{nm}/same kind, same operator, children in place', pre + [z3.Or(bad) if bad else T], ex=ex2,
               sample={'node': str(orig)[:200], 'est': str(shape(ex, rets[0].st, est_val, {**tok, **{e.id: f'est(child{i})' for i, e in enumerate(ests)}}))[:200], 'back': str(last)[:200]},
               on_sat=lambda m: battery_replay(ctx, nm, ('est/expr.rs' if fmt == 'EST' else 'pst/expr.rs + pst/ast_conversions.rs') + f' + ast/expr.rs: AST <-> {fmt} conversion of an expression node', f'a {label} node does not survive AST -> {fmt} -> AST', fmt))
    ctx.decide(f'{nm}/paths-cover', [z3.Not(z3.Or([z3.And(o.pc) if o.pc else T for o in rets2]))], ex=ex2)
    ctx.decide(f'{nm}/witness', [z3.Or([z3.And(o.pc) if o.pc else T for o in rets2] or [F])], expect='sat', ex=ex2)


# ---------------------------------------------------------------------------------------------------------------- native battery

W = 'permit(principal, action, resource) when { %s };'
CONDS = ['principal == resource', '1 < 2', '1 <= 2', '2 > 1', '2 >= 1', '1 != 2', '1 + 2 == 3', '1 - 2 == 3', '2 * 3 == 6', '-1 < 0', '!(1 < 2)', 'principal in resource', '[1, 2].contains(1)', '[1, 2].containsAll([1])',
         '[1, 2].containsAny([3])', '[1].isEmpty()', 'principal.hasTag("t")', 'principal.getTag("t") == 1', 'principal.a.b == 1', 'principal has a', 'principal has a.b.c', '"abc" like "a*c\\\\*"', 'principal is User',
         'principal is User in Group::"g"', 'if 1 < 2 then 3 == 4 else 5 == 6', 'true && false', 'true || false', '{a: 1, "b c": 2}.a == 1', '[1, 2, 3] == [3]', 'ip("1.2.3.4").isLoopback()', 'decimal("1.0").lessThan(decimal("2.0"))',
         'context.x - 1 - 2 == 0', '1 - (2 - 3) == 0', '(1 + 2) * 3 == 9', 'principal.a < principal.b && principal.c <= principal.d', '[principal.a - principal.b, principal.b - principal.a].contains(0)',
         '(if principal.a then principal.b else principal.c) == principal.d', 'principal.b.contains(principal.a) && !principal.a.contains(principal.b)', 'principal.a.containsAll(principal.b) != principal.b.containsAll(principal.a)',
         'principal.a.containsAny(principal.b) || principal.a in principal.b', 'principal.a.getTag(principal.b) == principal.b.hasTag(principal.a)',
         # nestings whose printed form needs (or must not drop) parentheses: a policy built from JSON / PST prints through the EST printer
         '1 * (2 * 3) == 6', '(1 * 2) * 3 == 6', '1 + (2 + 3) == 6', '1 - (2 + 3) == 0', '1 + (2 - 3) == 0', '(1 - 2) * 3 == 0', '1 - 2 * 3 == 0', '-(-1) == 1', '-(1 + 2) == 0', '-(1 * 2) == 0', '!(!true)', '!(true && false)', '!(1 < 2) == false',
         '(1 < 2) == true', 'true && (false || true)', '(true && false) || true', '(true || false) && true', 'true || (false && true)', '(if true then 1 else 2) + 3 == 4', 'if true then 1 == 2 else (if false then true else false)',
         '(if true then principal else resource).a', '[1, 2].contains(1 + 2)', '(principal.a).b == 1', 'principal has a && principal.a has b', '!(principal has a)', '(principal has a) == true', '(principal like "a") == true',
         '!(principal like "a")', '(principal is User) == true', '!(principal is User)', '(principal in resource) == true', '!(principal in resource)', '(1 + 2).isEmpty()', '(-1).isEmpty()', '{a: 1 + 2}.a * 3 == 9',
         '(principal.a + 1) * (principal.b - 1) == 0', 'principal.a * principal.b * principal.c == 0', 'principal.a * (principal.b * principal.c) == 0', 'principal.a - (principal.b - principal.c) == 0',
         '(principal == resource) != (principal in resource)', '(1 == 2) == (3 == 4)', '[(1 + 2) * 3].contains(9)']


POLICIES = ['@a("x") @b("") @c permit(principal, action, resource);', 'forbid(principal == User::"a", action == Action::"x", resource == Photo::"p") unless { 1 < 2 };',
            'permit(principal in Group::"g", action in [Action::"x", Action::"y"], resource in Album::"z");', 'permit(principal is User, action in [], resource is Photo);',
            'forbid(principal is User in Group::"g", action in Action::"all", resource is Photo in Album::"z") when { true } unless { false };',
            '@id("p") permit(principal, action, resource) when { principal.a } when { resource.b } unless { context.c };',
            'permit(principal == User::"O\\"Brien\\\\", action, resource in Album::"a\\nb") when { resource == Photo::"\\"" };',
            'permit(principal, action, resource) when { resource.name like "a**b\\*c*" && resource.name like "**" };']


def battery_replay(ctx, name, role, why, fmt='EST'):
    cache = ctx.__dict__.setdefault('_c06_battery' + fmt, {})
    if 'result' not in cache:
        cache['result'] = None
        for cnd in [W % c for c in CONDS] + POLICIES:
            a = ctx.native.ask({'op': 'est_roundtrip', 'policy': cnd, 'format': fmt})
            if 'equal' not in a:
                return ctx.mismatch(name, f'est_roundtrip probe `{cnd}`: {a}')
            if not a['equal']:
                cache['result'] = (f'`{cnd}` becomes `{a.get("back")}` after policy -> {fmt} -> policy', {'op': 'est_roundtrip', 'policy': cnd, 'format': fmt})
                break
            if a.get('printed_equal') is False:
                cache['result'] = (f'`{cnd}` rebuilt from its {fmt} form prints as `{a.get("back")}`, which does not parse back to the same policy', {'op': 'est_roundtrip', 'policy': cnd, 'format': fmt})
                break
    r = cache['result']
    if r:
        return ctx.violation(name, role, f'{why}; natively: {r[0]}', r[1])
    return ('unreplayed', f'{why}; but the {len(CONDS) + len(POLICIES)} policies of the battery survive policy -> JSON -> policy unchanged')


def battery_selftest(ctx):
    r = battery_replay(ctx, 'native battery', 'est/expr.rs: JSON policy format round trip', 'native JSON round-trip battery')
    if r and r[0] != 'unreplayed':
        return r
    r = link_battery(ctx, 'native battery (links)', 'est/scope_constraints.rs: link of a scope constraint', 'native linked-policy JSON battery')
    if r and r[0] != 'unreplayed':
        return r
    return battery_replay(ctx, 'native battery (PST)', 'pst/*: programmatic syntax tree round trip', 'native PST round-trip battery', 'PST')


def nodes():
    out = []
    out.append(('if-then-else', lambda k, p: Agg('variant', EK, 'If', [arc(k[0]), arc(k[1]), arc(k[2])])))
    out.append(('&&', lambda k, p: Agg('variant', EK, 'And', [arc(k[0]), arc(k[1])])))
    out.append(('||', lambda k, p: Agg('variant', EK, 'Or', [arc(k[0]), arc(k[1])])))
    for op in UNOPS:
        out.append((f'unary {op}', lambda k, p, op=op: Agg('variant', EK, 'UnaryApp', [Agg('variant', 'ast::ops::UnaryOp', op, []), arc(k[0])])))
    for op in BINOPS:
        out.append((f'binary {op}', lambda k, p, op=op: Agg('variant', EK, 'BinaryApp', [Agg('variant', 'ast::ops::BinaryOp', op, []), arc(k[0]), arc(k[1])])))
    out.append(('attribute access', lambda k, p: Agg('variant', EK, 'GetAttr', [arc(k[0]), p['attr']])))
    out.append(('has', lambda k, p: Agg('variant', EK, 'HasAttr', [arc(k[0]), p['attr']])))
    out.append(('like', lambda k, p: Agg('variant', EK, 'Like', [arc(k[0]), p['pattern']])))
    out.append(('is', lambda k, p: Agg('variant', EK, 'Is', [arc(k[0]), p['entity_type']])))
    out.append(('set of 2', lambda k, p: Agg('variant', EK, 'Set', [arc(Agg('struct', '~vec', None, [k[0], k[1]]))])))
    out.append(('record of 2', lambda k, p: Agg('variant', EK, 'Record', [arc(Agg('struct', '~btree', None, [Agg('tuple', None, None, [p['key0'], k[0]]), Agg('tuple', None, None, [p['key1'], k[1]])]))])))
    out.append(('extension call with 2 arguments', lambda k, p: Agg('variant', EK, 'ExtensionFunctionApp', [p['fn_name'], arc(Agg('struct', '~vec', None, [k[0], k[1]]))])))
    out.append(('variable', lambda k, p: Agg('variant', EK, 'Var', [p['var']])))
    out.append(('slot', lambda k, p: Agg('variant', EK, 'Slot', [p['slot']])))
    return out


# ---------------------------------------------------------------------------------------------------------------- scope constraints

PRC = 'ast::policy::PrincipalOrResourceConstraint'
ER = 'ast::policy::EntityReference'


def constraint_round_trip(ctx, who, label, build, action=False):
    """ast constraint -> est constraint -> ast constraint for one constraint shape; entity uids travel as opaque JSON tokens that convert back to the same uid"""
    P = ctx.prog('core')
    if action:
        f1 = [f for f in P.find(r'>::from$', 'cedar-policy-core/src/est/scope_constraints.rs') if len(f.args) == 1 and f.args[0][1].endswith('ast::policy::ActionConstraint')]
        f2 = [f for f in P.find(r'>::try_from$', 'cedar-policy-core/src/est/scope_constraints.rs') if len(f.args) == 1 and f.args[0][1].endswith('scope_constraints::ActionConstraint') and 'ActionConstraint' in f.ret]
    else:
        est_ty = 'scope_constraints::' + ('PrincipalConstraint' if who == 'principal' else 'ResourceConstraint')
        f1 = [f for f in P.find(r'>::from$', 'cedar-policy-core/src/est/scope_constraints.rs') if len(f.args) == 1 and f.args[0][1].endswith('PrincipalOrResourceConstraint') and f.ret.endswith(est_ty)]
        f2 = [f for f in P.find(r'>::try_from$', 'cedar-policy-core/src/est/scope_constraints.rs') if len(f.args) == 1 and f.args[0][1].endswith(est_ty) and 'PrincipalOrResourceConstraint' in f.ret]
    if len(f1) != 1 or len(f2) != 1:
        raise LookupError(f'{who} constraint conversions: {len(f1)} / {len(f2)} candidates')
    f1, f2 = f1[0], f2[0]
    ctx.use(f1)
    ctx.use(f2)
    uids = [Opaque('ast::entity::EntityUID', f'uid{i}') for i in range(2)]
    jsons = [Opaque('entities::json::value::TypeAndId', f'uid{i} as JSON') for i in range(2)]
    ety, ety_txt = Opaque('ast::entity::EntityType', 'entity type'), Opaque('smol_str::SmolStr', 'entity type as text')
    tok = {u.id: f'uid{i}' for i, u in enumerate(uids)}
    tok.update({ety.id: 'entity_type', ety_txt.id: 'entity_type'})
    node = build(uids, ety)

    def mk(ex):
        ex.havoc_unknown = HAVOC
        ex.max_paths = 400
        ex.from_wrappers.add('FromJsonError')
        install_maps(ex)
        C.install(ex)
        uidx, jidx = {u.id: i for i, u in enumerate(uids)}, {j.id: i for i, j in enumerate(jsons)}
        ex.stub(r'TypeAndId as From<&.*EntityUID>>::from$|<&.*EntityUID as Into<.*TypeAndId>>::into$', lambda ex_, st, c, A: (lambda i: None if i is None else jsons[i])(uidx.get(getattr(strip(ex_, st, A[0]), 'id', None))),
                'EntityUID -> TypeAndId (JSON form of uid i, opaque)')

        def into_euid(ex_, st, c, A):
            j = strip(ex_, st, A[0])
            inner = strip(ex_, st, j.fields[0]) if isinstance(j, Agg) and j.fields else None
            i = jidx.get(getattr(inner, 'id', None))
            return None if i is None else ok(uids[i])
        ex.stub(r'EntityUidJson::<.*>::into_euid$|EntityUidJson::into_euid$', into_euid, 'EntityUidJson::into_euid: the JSON form of uid i parses back to uid i (literal values are outside)')
        ex.stub(r'(EntityType>?|T) as (ToSmolStr|ToString)>::(to_smolstr|to_string)$', lambda ex_, st, c, A: ety_txt if getattr(strip(ex_, st, A[0]), 'id', None) == ety.id else None, 'printing of the entity type (opaque text)')
        ex.stub(r'EntityType( as [\w:]+)?>?::from_normalized_str$', lambda ex_, st, c, A: ok(ety) if getattr(strip(ex_, st, A[0]), 'id', None) == ety_txt.id else None, 'parsing the printed entity type gives the type back (C05)')
        ex.stub(r'SmolStr::as_str$|<(smol_str::)?SmolStr as Deref>::deref$', lambda ex_, st, c, A: A[0], 'SmolStr as str')
        ex.stub(r'<Vec<.*> as (std::ops::)?Index<RangeFull>>::index$', lambda ex_, st, c, A: A[0], 'Vec[..] (the whole vector as a slice)')
        ex.stub(r'ActionConstraint::contains_only_action_types$', lambda ex_, st, c, A: ok(A[0]), 'contains_only_action_types: the uids are actions (precondition: the policy parsed)')
        return ex
    ex = mk(ctx.new_exec('core'))
    outs = ex.run(f1, [node])
    ctx.absorb(ex)
    nm = f'{who} constraint AST -> EST -> AST[{label}]'
    ctx.panic_summary(nm + ' (to EST)', outs, ex)
    rets = [o for o in outs if o.kind == 'ret']
    if len(rets) != 1:
        raise NotEncoded(f'{nm}: AST -> EST gave {len(rets)} results')
    est_val = rets[0].val
    ex2 = mk(ctx.new_exec('core'))
    outs2 = ex2.run(f2, [est_val])
    ctx.absorb(ex2)
    ctx.panic_summary(nm + ' (back to AST)', outs2, ex2)
    rets2 = [o for o in outs2 if o.kind == 'ret']
    orig = cshape(ex, rets[0].st, node, tok)
    last = None
    bad = []
    for o in rets2:
        good = isinstance(o.val, Agg) and o.val.variant == 'Ok' and cshape(ex2, o.st, o.val.fields[0], tok) == orig
        last = cshape(ex2, o.st, o.val.fields[0], tok) if isinstance(o.val, Agg) and o.val.fields else repr(o.val)[:80]
        bad.append(z3.And(o.pc + [z3.BoolVal(not good)]))
    ctx.decide(f'{nm}/same constraint', [z3.Or(bad) if bad else T], ex=ex2, sample={'constraint': str(orig)[:160], 'est': repr(est_val)[:160], 'back': str(last)[:160]},
               on_sat=lambda m: battery_replay(ctx, nm, 'est/scope_constraints.rs: scope constraint conversion', f'a {label} {who} constraint does not survive AST -> EST -> AST'))
    ctx.decide(f'{nm}/paths-cover', [z3.Not(z3.Or([z3.And(o.pc) if o.pc else T for o in rets2]))], ex=ex2)
    ctx.decide(f'{nm}/witness', [z3.Or([z3.And(o.pc) if o.pc else T for o in rets2] or [F])], expect='sat', ex=ex2)


def cshape(ex, st, v, tok):
    v = strip(ex, st, v)
    if isinstance(v, Opaque):
        return ('tok', tok.get(v.id, f'?{v.what}'))
    if isinstance(v, Agg) and v.kind == 'variant':
        if v.variant == 'Slot':
            return ('Slot',)                 # the source location of a slot is not part of the constraint
        return (v.variant,) + tuple(cshape(ex, st, f, tok) for f in v.fields)
    if isinstance(v, Agg) and v.name == '~vec':
        return ('vec',) + tuple(cshape(ex, st, f, tok) for f in v.fields)
    if isinstance(v, Agg):
        return (v.name,) + tuple(cshape(ex, st, f, tok) for f in v.fields)
    return ('?', repr(v)[:40])


def constraint_shapes():
    eu = lambda u: Agg('variant', ER, 'EUID', [arc(u)])
    slot = Agg('variant', ER, 'Slot', [none()])
    return [('any', lambda u, t: Agg('variant', PRC, 'Any', [])), ('== entity', lambda u, t: Agg('variant', PRC, 'Eq', [eu(u[0])])), ('== slot', lambda u, t: Agg('variant', PRC, 'Eq', [slot])),
            ('in entity', lambda u, t: Agg('variant', PRC, 'In', [eu(u[0])])), ('in slot', lambda u, t: Agg('variant', PRC, 'In', [slot])), ('is', lambda u, t: Agg('variant', PRC, 'Is', [arc(t)])),
            ('is .. in entity', lambda u, t: Agg('variant', PRC, 'IsIn', [arc(t), eu(u[0])])), ('is .. in slot', lambda u, t: Agg('variant', PRC, 'IsIn', [arc(t), slot]))]


def action_shapes():
    AC = 'ast::policy::ActionConstraint'
    return [('any', lambda u, t: Agg('variant', AC, 'Any', [])), ('== action', lambda u, t: Agg('variant', AC, 'Eq', [arc(u[0])])), ('in [one]', lambda u, t: Agg('variant', AC, 'In', [Agg('struct', '~vec', None, [arc(u[0])])])),
            ('in [two]', lambda u, t: Agg('variant', AC, 'In', [Agg('struct', '~vec', None, [arc(u[0]), arc(u[1])])])), ('in []', lambda u, t: Agg('variant', AC, 'In', [Agg('struct', '~vec', None, [])]))]


# ---------------------------------------------------------------------------------------------------------------- whole policy / template

def policy_round_trip(ctx, has_cond, effect):
    """ast::Template -> est::Policy -> ast::Template: effect, the three scope constraints, the condition and every annotation (key and value) land where they came from;
    the component conversions are stubs that invert each other (own obligations above)"""
    P = ctx.prog('core')
    f1 = [f for f in P.find(r'>::from$', 'cedar-policy-core/src/est.rs') if len(f.args) == 1 and f.args[0][1].endswith('ast::policy::Template')]
    f2 = P.find(r'>::try_into_ast_policy_or_template$', 'cedar-policy-core/src/est.rs')
    if len(f1) != 1 or len(f2) != 1:
        raise LookupError(f'policy conversions: {len(f1)} / {len(f2)} candidates')
    f1, f2 = f1[0], f2[0]
    ctx.use(f1)
    ctx.use(f2)
    tpl = Opaque('ast::policy::Template', 'the template')
    comp = {k: Opaque(t, f'{k} constraint') for k, t in (('principal', 'ast::policy::PrincipalConstraint'), ('action', 'ast::policy::ActionConstraint'), ('resource', 'ast::policy::ResourceConstraint'))}
    ecomp = {k: Opaque('est::scope_constraints::' + k.capitalize() + 'Constraint', f'{k} constraint as EST') for k in comp}
    cond, econd = Opaque(AEX, 'condition'), Opaque(EEX, 'condition as EST')
    akeys = [Opaque('ast::id::AnyId', f'annotation key {i}') for i in range(2)]
    avals = [Agg('struct', 'ast::annotation::Annotation', None, [Opaque('smol_str::SmolStr', f'annotation value {i}'), Opaque('Option<Loc>', f'loc {i}')], ('val', 'loc')) for i in range(2)]
    tok = {akeys[i].id: f'key{i}' for i in range(2)}
    tok.update({avals[i].fields[0].id: f'value{i}' for i in range(2)})
    tok.update({comp[k].id: k for k in comp})
    tok.update({cond.id: 'condition'})
    eff = Agg('variant', 'ast::policy::Effect', effect, [])
    from ..models import key_id

    def mk(ex):
        ex.havoc_unknown = HAVOC
        ex.max_paths = 400
        ex.from_wrappers.add('FromJsonError')
        install_maps(ex)
        C.install(ex)
        ex.invariants.append(key_id(akeys[0]) != key_id(akeys[1]))
        return ex
    ex = mk(ctx.new_exec('core'))
    ex.stub(r'Template::effect$', lambda ex_, st, c, A: eff, 'Template::effect')
    for k in comp:
        ex.stub(rf'Template::{k}_constraint$', lambda ex_, st, c, A, k=k: ex_.new_cell(st, comp[k], k), f'Template::{k}_constraint')
        ex.stub(rf'{k.capitalize()}Constraint as Into<.*{k.capitalize()}Constraint>>::into$', lambda ex_, st, c, A, k=k: ecomp[k] if getattr(strip(ex_, st, A[0]), 'id', None) == comp[k].id else None,
                f'{k} constraint -> EST (own obligations per shape)')
    ex.stub(r'Template::non_scope_constraints$', lambda ex_, st, c, A: some(ex_.new_cell(st, cond, 'cond')) if has_cond else none(), 'Template::non_scope_constraints')
    ex.stub(r'Expr::<.*>::into_expr::<|ast::expr::<impl at [^>]*>::into_expr$', lambda ex_, st, c, A: econd if getattr(strip(ex_, st, A[0]), 'id', None) == cond.id else None, 'condition -> EST (own obligations per node kind)')
    ex.stub(r'Template::annotations$', lambda ex_, st, c, A: Agg('struct', '~vec_iter', None, [Agg('tuple', None, None, [ex_.new_cell(st, akeys[i], 'k'), ex_.new_cell(st, avals[i], 'v')]) for i in range(2)]), 'Template::annotations: two annotations')
    outs = ex.run(f1, [tpl])
    ctx.absorb(ex)
    nm = f'template AST -> EST -> AST[{effect}, {"with" if has_cond else "without"} condition, 2 annotations]'
    ctx.panic_summary(nm + ' (to EST)', outs, ex)
    rets = [o for o in outs if o.kind == 'ret']
    if len(rets) != 1:
        raise NotEncoded(f'{nm}: AST -> EST gave {len(rets)} results')
    est_val = rets[0].val
    ex2 = mk(ctx.new_exec('core'))
    for k in comp:
        ex2.stub(rf'{k.capitalize()}Constraint as TryInto<.*{k.capitalize()}Constraint>>::try_into$', lambda ex_, st, c, A, k=k: ok(comp[k]) if getattr(strip(ex_, st, A[0]), 'id', None) == ecomp[k].id else None,
                 f'EST {k} constraint -> AST (own obligations per shape)')
    ex2.stub(r'est::expr::<impl at [^>]*>::try_into_ast$|est::expr::Expr::try_into_ast$', lambda ex_, st, c, A: ok(cond) if getattr(strip(ex_, st, A[0]), 'id', None) == econd.id else None, 'EST condition -> AST (own obligations per node kind)')
    ex2.stub(r'Expr::<.*>::slots$|ast::expr::<impl at [^>]*>::slots$|(^|::)Expr::slots$', lambda ex_, st, c, A: Agg('struct', '~vec_iter', None, []), 'the condition has no slots (templates keep slots in the scope)')

    def tnew(ex_, st, c, A):
        st.notes['new'] = list(A)
        return Opaque('ast::policy::Template', 'rebuilt template')
    ex2.stub(r'Template::new$', tnew, 'Template::new(id, loc, annotations, effect, principal, action, resource, condition), logged')
    ex2.stub(r'as Iterator>::collect::<(ast::annotation::)?Annotations>$', lambda ex_, st, c, A: Agg('struct', '~annotations', None, list(A[0].fields)) if isinstance(A[0], Agg) and A[0].name == '~vec_iter' else None, 'collect into Annotations (the pairs)')
    ex2.stub(r'Annotation::with_optional_value$', lambda ex_, st, c, A: Agg('struct', '~annotation', None, [A[0]]), 'Annotation::with_optional_value(value, loc) (term)')
    pid = Opaque('ast::policy::PolicyID', 'policy id')
    outs2 = ex2.run(f2, [est_val, some(pid)])
    ctx.absorb(ex2)
    ctx.panic_summary(nm + ' (back to AST)', outs2, ex2)
    rets2 = [o for o in outs2 if o.kind == 'ret']
    bad, last = [], None
    for o in rets2:
        A = o.st.notes.get('new')
        good = isinstance(o.val, Agg) and o.val.variant == 'Ok' and A is not None and len(A) == 8
        desc = None
        if good:
            ident = lambda v: tok.get(getattr(strip(ex2, o.st, v), 'id', None))
            anns = strip(ex2, o.st, A[2])
            pairs = []
            for e in (anns.fields if isinstance(anns, Agg) else []):
                k_, v_ = e.fields[0], strip(ex2, o.st, e.fields[1])
                inner = v_.fields[0] if isinstance(v_, Agg) and v_.name == '~annotation' else None
                vv = strip(ex2, o.st, inner.fields[0]) if isinstance(inner, Agg) and inner.variant == 'Some' else None
                pairs.append((ident(k_), tok.get(getattr(vv, 'id', None))))
            effv = strip(ex2, o.st, A[3])
            c8 = A[7]
            condv = (ident(c8.fields[0]) if isinstance(c8, Agg) and c8.variant == 'Some' else None) if isinstance(c8, Agg) else '?'
            desc = (getattr(strip(ex2, o.st, A[0]), 'id', None) == pid.id, sorted(pairs), getattr(effv, 'variant', None), ident(A[4]), ident(A[5]), ident(A[6]), condv)
            good = desc == (True, [('key0', 'value0'), ('key1', 'value1')], effect, 'principal', 'action', 'resource', 'condition' if has_cond else None)
        last = desc
        bad.append(z3.And(o.pc + [z3.BoolVal(not good)]))
    ctx.decide(f'{nm}/every component lands where it came from', [z3.Or(bad) if bad else T], ex=ex2, sample={'rebuilt (id ok, annotations, effect, principal, action, resource, condition)': str(last)[:300]},
               on_sat=lambda m: battery_replay(ctx, nm, 'est.rs: policy / template conversion', 'a policy component does not survive AST -> EST -> AST'))
    ctx.decide(f'{nm}/paths-cover', [z3.Not(z3.Or([z3.And(o.pc) if o.pc else T for o in rets2]))], ex=ex2)
    ctx.decide(f'{nm}/witness', [z3.Or([z3.And(o.pc) if o.pc else T for o in rets2] or [F])], expect='sat', ex=ex2)


def link_obligation(ctx, who, label, build, build_linked):
    """est::{Principal,Resource}Constraint::link(vals): a slot is replaced by the entity bound to THAT slot and nothing else changes - so the JSON form of a linked
    policy is the JSON form of the policy one gets by linking the AST (whose scope constraint is `build_linked`)"""
    P = ctx.prog('core')
    est_ty = 'scope_constraints::' + ('PrincipalConstraint' if who == 'principal' else 'ResourceConstraint')
    f1 = [f for f in P.find(r'>::from$', 'cedar-policy-core/src/est/scope_constraints.rs') if len(f.args) == 1 and f.args[0][1].endswith('PrincipalOrResourceConstraint') and f.ret.endswith(est_ty)]
    fl = [f for f in P.find(r'>::link$', 'cedar-policy-core/src/est/scope_constraints.rs') if len(f.args) == 2 and f.args[0][1].endswith(est_ty)]
    if len(f1) != 1 or len(fl) != 1:
        raise LookupError(f'{who} constraint link: {len(f1)} / {len(fl)} candidates')
    f1, fl = f1[0], fl[0]
    ctx.use(fl)
    uids = [Opaque('ast::entity::EntityUID', f'uid{i}') for i in range(2)]
    jsons = [Opaque('entities::json::value::TypeAndId', f'uid{i} as JSON') for i in range(2)]
    ety, ety_txt = Opaque('ast::entity::EntityType', 'entity type'), Opaque('smol_str::SmolStr', 'entity type as text')
    tok = {j.id: f'uid{i}' for i, j in enumerate(jsons)}
    tok.update({ety_txt.id: 'entity_type'})
    BOUND = z3.Bool('slot_is_bound')
    want_slot = 'principal' if who == 'principal' else 'resource'

    def to_est(node):
        ex = ctx.new_exec('core')
        ex.havoc_unknown = HAVOC
        install_maps(ex)
        C.install(ex)
        uidx = {u.id: i for i, u in enumerate(uids)}
        ex.stub(r'TypeAndId as From<&.*EntityUID>>::from$|<&.*EntityUID as Into<.*TypeAndId>>::into$', lambda ex_, st, c, A: (lambda i: None if i is None else jsons[i])(uidx.get(getattr(strip(ex_, st, A[0]), 'id', None))), 'EntityUID -> TypeAndId (opaque)')
        ex.stub(r'(EntityType>?|T) as (ToSmolStr|ToString)>::(to_smolstr|to_string)$', lambda ex_, st, c, A: ety_txt if getattr(strip(ex_, st, A[0]), 'id', None) == ety.id else None, 'printing of the entity type (opaque text)')
        outs = ex.run(f1, [node])
        rets = [o for o in outs if o.kind == 'ret']
        if len(rets) != 1:
            raise NotEncoded(f'est of a {label} constraint: {len(rets)} results')
        return ex, rets[0]
    ex0, r0 = to_est(build(uids, ety))
    ex1, r1 = to_est(build_linked(uids, ety))
    expected = cshape(ex1, r1.st, r1.val, tok)
    ex = ctx.new_exec('core')
    ex.havoc_unknown = HAVOC
    ex.max_paths = 400
    ex.from_wrappers.add('LinkingError')
    install_maps(ex)
    C.install(ex)
    val = Agg('variant', 'entities::json::value::EntityUidJson', 'ImplicitEntityEscape', [jsons[1]])

    def vals_get(ex_, st, c, A):
        s_ = strip(ex_, st, A[1])
        st.notes['asked'] = st.notes.get('asked', []) + [repr(s_)[:80]]
        return [([BOUND], some(ex_.new_cell(st, val, 'val'))), ([z3.Not(BOUND)], none())]
    ex.stub(r'HashMap::<.*SlotId, .*EntityUidJson.*>::get::<', vals_get, 'vals.get(slot): bound (the JSON of uid1) or not, logged')
    outs = ex.run(fl, [r0.val, Ref(0, ('local', 'VALS'))], heap={'VALS': Opaque('HashMap<SlotId, EntityUidJson>', 'slot bindings')})
    ctx.absorb(ex)
    nm = f'est {who} constraint link[{label}]'
    ctx.panic_summary(nm, outs, ex)
    rets = [o for o in outs if o.kind == 'ret']
    has_slot = 'slot' in label
    bad = []
    last = None
    for o in rets:
        if isinstance(o.val, Agg) and o.val.variant == 'Ok':
            got = cshape(ex, o.st, o.val.fields[0], tok)
            last = got
            good = z3.And(z3.BoolVal(got == expected), BOUND if has_slot else T)
        else:
            good = z3.And(z3.BoolVal(has_slot), z3.Not(BOUND))
        bad.append(z3.And(o.pc + [z3.Not(good)]))
    ctx.decide(f'{nm}/the slot becomes the bound entity, nothing else changes', [z3.Or(bad) if bad else T], ex=ex, sample={'expected': str(expected)[:160], 'got': str(last)[:160]},
               on_sat=lambda m: link_battery(ctx, nm, 'est/scope_constraints.rs: link of a scope constraint', f'linking a {label} {who} constraint in the JSON form gives another constraint than linking the AST'))
    ctx.decide(f'{nm}/paths-cover', [z3.Not(z3.Or([z3.And(o.pc) if o.pc else T for o in rets]))], ex=ex)
    ctx.decide(f'{nm}/witness', [z3.Or([z3.And(o.pc) if o.pc else T for o in rets] or [F])], expect='sat', ex=ex)


LINK_TEMPLATES = ['permit(principal == ?principal, action, resource == ?resource);', 'permit(principal in ?principal, action, resource in ?resource);',
                  'forbid(principal is User in ?principal, action, resource is Doc in ?resource);', 'permit(principal == ?principal, action, resource in ?resource);',
                  'permit(principal in ?principal, action, resource == ?resource);', 'permit(principal, action, resource == ?resource);']


def link_battery(ctx, name, role, why):
    cache = ctx.__dict__.setdefault('_c06_link_battery', {})
    if 'r' not in cache:
        cache['r'] = None
        for t in LINK_TEMPLATES:
            a = ctx.native.ask({'op': 'link_json', 'template': t})
            if 'equal' not in a:
                return ctx.mismatch(name, f'link_json probe `{t}`: {a}')
            if not a['equal']:
                cache['r'] = (f'the link of `{t}` is `{a.get("linked")}` but its JSON form reads back as `{a.get("back")}`', {'op': 'link_json', 'template': t})
                break
    if cache['r']:
        return ctx.violation(name, role, f'{why}; natively: {cache["r"][0]}', cache['r'][1])
    return ('unreplayed', f'{why}; but the {len(LINK_TEMPLATES)} linked templates of the battery survive to_json / from_json')


def families(ctx):
    fam = [(f'round trip of a {label} node', (lambda label=label, b=b: round_trip(ctx, label, b))) for label, b in nodes()]
    fam += [(f'PST round trip of a {label} node', (lambda label=label, b=b: round_trip(ctx, label, b, 'PST'))) for label, b in nodes() if not label.startswith('extension call') and label not in ('variable', 'slot')]
    # the PST has its own Var / SlotId types: one node per concrete variable and slot, so that the real conversions between them run
    for v in ('Principal', 'Action', 'Resource', 'Context'):
        fam.append((f'PST round trip of a variable {v} node', (lambda v=v: round_trip(ctx, f'variable {v}', (lambda k, p, v=v: Agg('variant', EK, 'Var', [Agg('variant', 'ast::expr::Var', v, [])])), 'PST'))))
    for sl in ('Principal', 'Resource'):
        fam.append((f'PST round trip of a slot {sl} node', (lambda sl=sl: round_trip(ctx, f'slot {sl}', (lambda k, p, sl=sl: Agg('variant', EK, 'Slot', [Agg('struct', 'ast::name::SlotId', None, [Agg('variant', 'ast::name::ValidSlotId', sl, [])])])), 'PST'))))
    for who in ('principal', 'resource'):
        fam += [(f'{who} constraint {label}', (lambda who=who, label=label, b=b: constraint_round_trip(ctx, who, label, b))) for label, b in constraint_shapes()]
    fam += [(f'action constraint {label}', (lambda label=label, b=b: constraint_round_trip(ctx, 'action', label, b, action=True))) for label, b in action_shapes()]
    linked = {'== slot': '== entity', 'in slot': 'in entity', 'is .. in slot': 'is .. in entity'}
    shapes = dict(constraint_shapes())
    for who in ('principal', 'resource'):
        for label, b in constraint_shapes():
            tgt = shapes[linked.get(label, label)]
            bl = (lambda u, t, tgt=tgt: tgt([u[1], u[0]], t)) if label in linked else b
            fam.append((f'est {who} constraint link {label}', (lambda who=who, label=label, b=b, bl=bl: link_obligation(ctx, who, label, b, bl))))
    fam += [(f'template {eff} cond={hc}', (lambda hc=hc, eff=eff: policy_round_trip(ctx, hc, eff))) for hc in (True, False) for eff in ('Permit', 'Forbid')]
    from . import c06_proto, c06_leaves
    fam += c06_proto.families(ctx) + c06_leaves.families(ctx)
    return fam


def run(ctx):
    ctx.run_families(families(ctx))
    ctx.guarded('native battery', lambda: battery_selftest(ctx))
    from . import c06_proto
    ctx.guarded('native protobuf battery', lambda: c06_proto.proto_battery(ctx, 'native protobuf battery', 'proto/*.rs: PolicySet through Protobuf::encode / decode', 'native protobuf battery'))
    ctx.bounds += ['one expression node of each kind (if, &&, ||, 3 unary and 12 binary operators, attribute access, has, like, is, set and record with 2 members, extension call with 2 arguments, variable, slot) with opaque '
                   'children that round-trip by induction hypothesis => expressions of any depth; containers with 2 members',
                   'every scope-constraint shape (principal / resource: any, == entity, == slot, in entity, in slot, is, is-in entity, is-in slot; action: any, ==, in [0, 1, 2 actions]); whole template: both effects, with / without '
                   'condition, two annotations', f'native battery: {len(CONDS) + len(POLICIES)} policies through Policy::to_json / Policy::from_json; native protobuf battery: {len(c06_proto.PROTO_SETS)} policy sets (incl. templates and links) through Protobuf::encode / decode, compared by id, scope and AST equality']
    ctx.assumptions += ['children are opaque: ast -> est of child i is an arbitrary EST e_i and est -> ast of e_i gives child i back (induction hypothesis); AST invariant used: && / || never have two boolean literals as children '
                        '(ExprBuilder::and / or fold them, and every AST is built through the builder)',
                        'leaves whose text form is out of reach are opaque and assumed to round-trip: printing and re-parsing of entity type names and extension function names (C05), '
                        'literal values (CedarValueJson), unknowns; two leaves are decided on their own (c06_leaves.py): like patterns AST <-> JSON pattern elements for every wildcard / character shape of <= 3 elements with symbolic characters, '
                        'and entity uids AST <-> PST (type and raw id text); the function of an extension call is assumed to be a known extension function',
                        'the same expression-node round trip is decided for the programmatic syntax tree (AST -> PST through PstBuilder, PST -> AST through pst::Expr::into_expr and the ast builder), except extension calls (PST keys them by name strings)',
                        'protobuf (cedar-policy/src/proto/{policy,ast}.rs from the cedar-policy crate dump, message types = the prost-generated code of the dump build): the same two-run round trip per scope-constraint shape, effect and '
                        'expression node kind (+ literal, 4 variables, 2 slots), the whole template body and the template-link message; the ast::Expr constructors, TemplateBody::new, Template::link, Expr::expr_kind, SlotId tests / constructors and EntityReference::euid of cedar-policy-core are logged one-line stubs; entity uids, names, '
                        'literals and pattern elements are tokens with their own (undecided) conversion pairs; prost byte encoding is a library (native protobuf battery only)',
                        'NOT covered: JSON (serde) serialisation itself, entity uids / literal values as JSON, policy sets, PST scope constraints / policies, protobuf PolicySet / Entities / Request / schema messages']
    return ctx.finish('Solver-decided AST <-> EST round trip of the JSON policy format at three levels (expression nodes, scope constraints, whole template: effect, constraints, condition, annotations), executed from the MIR of ast/expr.rs, ast/expr_builder.rs and est/expr.rs: for every kind of expression node, AST -> EST '
                      '(generic walker, ExprBuilder::{unary_app, binary_app} dispatch, est::Builder) followed by EST -> AST (est::Expr::try_into_ast and the real ast constructors) yields a node of the same kind and operator '
                      'with the children in the same positions; the second run starts from the value the first one produced.')
