"""C07 - extension types compute exact results: the scalar kernels behind datetime / duration / decimal (engine M)."""
import z3
from ..framework import (Kernel, run_kernel, And, Or, Not, Implies, If, tdiv, emod, in_range, I64_MIN, I64_MAX, MachineryError)
from ..executor import IntV, BoolV, Agg, Opaque, Ref, NotEncoded
from ..models import ok, err
from .common import flat, scalars_only, eval_long, dt, dur, epoch_of

DAY = 86_400_000
DT = r'extensions/datetime\.rs'


def struct1(name, v):
    return Agg('struct', name, None, [v])


def kernels(ctx):
    P = ctx.prog('core')
    dtf = lambda n, a0=r'^extensions::datetime::(DateTime|Duration)$': P.method('extensions/datetime.rs', n, arg0=a0)
    dec = lambda o_ex: None
    K = []

    def opt_i64(ex, o):
        return scalars_only(flat(ex, o))

    # ---- DateTime::offset / duration_since
    def spec_add(ins, tag, vals):
        s = ins['e'] + ins['d']
        return If(tag == 'Some', And(len(vals) == 1, vals[0] == s, in_range(s, 'i64')) if tag == 'Some' else False,
                  Not(in_range(s, 'i64')) if tag == 'None' else False) if tag in ('Some', 'None') else False
    def spec_offset(ins, tag, vals):
        s = ins['e'] + ins['d']
        if tag == 'Some':
            return And(vals[0] == s, in_range(s, 'i64'))
        if tag == 'None':
            return Not(in_range(s, 'i64'))
        return False
    K.append(Kernel('DateTime::offset', dtf('offset'), [('e', 'i64'), ('d', 'i64')],
                    lambda ex, i: [struct1('DateTime', i['e']), struct1('Duration', i['d'])], opt_i64, spec_offset,
                    native=lambda nat, c: eval_long(nat, epoch_of(f'{dt(c["e"])}.offset({dur(c["d"])})')),
                    expect_tags=('Some', 'None'), samples=[(I64_MAX, 1), (I64_MIN, -1), (I64_MAX, 0), (I64_MIN, I64_MAX), (-1, I64_MIN)]))

    def spec_since(ins, tag, vals):
        s = ins['a'] - ins['b']
        if tag == 'Some':
            return And(vals[0] == s, in_range(s, 'i64'))
        if tag == 'None':
            return Not(in_range(s, 'i64'))
        return False
    K.append(Kernel('DateTime::duration_since', dtf('duration_since'), [('a', 'i64'), ('b', 'i64')],
                    lambda ex, i: [struct1('DateTime', i['a']), struct1('DateTime', i['b'])], opt_i64, spec_since,
                    native=lambda nat, c: eval_long(nat, f'{dt(c["a"])}.durationSince({dt(c["b"])}).toMilliseconds()'),
                    expect_tags=('Some', 'None'), samples=[(I64_MIN, 1), (0, I64_MIN), (-1, I64_MIN), (I64_MAX, -1), (I64_MIN, I64_MIN)]))

    # ---- DateTime::to_date: the day floor d (d <= e < d + DAY, d multiple of DAY) when representable, else overflow
    def spec_to_date(ins, tag, vals):
        e = ins['e']
        d = e - emod(e, DAY)
        if tag == 'Some':
            return And(vals[0] == d, d >= I64_MIN)
        if tag == 'None':
            return d < I64_MIN
        return False
    K.append(Kernel('DateTime::to_date', dtf('to_date'), [('e', 'i64')], lambda ex, i: [struct1('DateTime', i['e'])], opt_i64, spec_to_date,
                    native=lambda nat, c: eval_long(nat, epoch_of(f'{dt(c["e"])}.toDate()')), expect_tags=('Some', 'None'),
                    samples=[(I64_MIN,), (I64_MIN + 1,), (I64_MIN + 51_951_615,), (I64_MIN + DAY,), (-DAY,), (-DAY - 1,), (-DAY + 1,), (DAY,), (DAY - 1,), (I64_MAX,),
                             (-9223372036800000000,), (-9223372036800000001,), (-9223372036799999999,)]))

    # ---- DateTime::to_time: 0 <= t < DAY and t = e (mod DAY)
    def spec_to_time(ins, tag, vals):
        if tag != 'val':
            return False
        return vals[0] == emod(ins['e'], DAY)
    K.append(Kernel('DateTime::to_time', dtf('to_time'), [('e', 'i64')], lambda ex, i: [struct1('DateTime', i['e'])], opt_i64, spec_to_time,
                    native=lambda nat, c: _as_val(eval_long(nat, f'{dt(c["e"])}.toTime().toMilliseconds()')), expect_tags=('val',),
                    samples=[(I64_MIN,), (-1,), (-DAY,), (-DAY - 1,), (DAY,), (I64_MAX,)]))

    # ---- Duration::to_*: truncating quotients
    for meth, div, cedar in (('to_milliseconds', 1, 'toMilliseconds'), ('to_seconds', 1000, 'toSeconds'), ('to_minutes', 60_000, 'toMinutes'),
                             ('to_hours', 3_600_000, 'toHours'), ('to_days', 86_400_000, 'toDays')):
        def spec_q(ins, tag, vals, div=div):
            if tag != 'val':
                return False
            return vals[0] == tdiv(ins['ms'], div)
        K.append(Kernel(f'Duration::{meth}', dtf(meth, r'^extensions::datetime::Duration$'),
                        [('ms', 'i64')], lambda ex, i: [struct1('Duration', i['ms'])], opt_i64, spec_q,
                        native=lambda nat, c, cedar=cedar: _as_val(eval_long(nat, f'{dur(c["ms"])}.{cedar}()')), expect_tags=('val',),
                        samples=[(I64_MIN,), (I64_MAX,), (-div,), (-div - 1,), (-div + 1,), (div,), (div - 1,), (-1,), (0,), (1,)]))
    return K


# ---------------------------------------------------------------------------------------------- ip (BV mode)

def _mask(p, W):
    """netmask of prefix length p (0..W) as an integer / bit-vector of width W"""
    if isinstance(p, z3.ExprRef):
        pw = z3.ZeroExt(W - p.size(), p)
        ones = z3.BitVecVal((1 << W) - 1, W)
        return z3.If(pw == 0, z3.BitVecVal(0, W), ones << (z3.BitVecVal(W, W) - pw))
    return 0 if p == 0 else (((1 << W) - 1) << (W - p)) & ((1 << W) - 1)


def _ule(a, b):
    return z3.ULE(a, b) if isinstance(a, z3.ExprRef) or isinstance(b, z3.ExprRef) else a <= b


def ip_text(v6, a, p):
    if not v6:
        return f'{(a >> 24) & 255}.{(a >> 16) & 255}.{(a >> 8) & 255}.{a & 255}/{p}'
    return ':'.join(f'{(a >> (112 - 16 * i)) & 0xffff:x}' for i in range(8)) + f'/{p}'


def ip_kernels(ctx):
    P = ctx.prog('core')
    K = []

    def ipval(ex, fam, a, p):
        return Agg('struct', 'IPAddr', None, [Agg('variant', 'std::net::IpAddr', fam, [Agg('struct', 'Ipv' + fam[1] + 'Addr', None, [a])]), p], ('addr', 'prefix'))

    def dec_bool(ex, o):
        return 'val', [o.val.t]
    f_range = P.method('extensions/ipaddr.rs', 'is_in_range', nargs=2, arg0=r'&IPAddr')
    for fam_s, fam_o in (('V4', 'V4'), ('V6', 'V6'), ('V4', 'V6'), ('V6', 'V4')):
        W_s, W_o = (32 if fam_s == 'V4' else 128), (32 if fam_o == 'V4' else 128)
        ty_s, ty_o = ('u32' if fam_s == 'V4' else 'u128'), ('u32' if fam_o == 'V4' else 'u128')

        def make(ex, fam_s=fam_s, fam_o=fam_o, ty_s=ty_s, ty_o=ty_o):
            a, b, ps, po = ex.fresh_int(ty_s, 'a'), ex.fresh_int(ty_o, 'b'), ex.fresh_int('u8', 'ps'), ex.fresh_int('u8', 'po')
            heap = {'S': ipval(ex, fam_s, a, ps), 'O': ipval(ex, fam_o, b, po)}
            ex.initial_heap = heap
            from ..executor import Ref
            return {'a': a.t, 'b': b.t, 'ps': ps.t, 'po': po.t}, [Ref(0, ('local', 'S')), Ref(0, ('local', 'O'))], \
                [z3.ULE(ps.t, 32 if fam_s == 'V4' else 128), z3.ULE(po.t, 32 if fam_o == 'V4' else 128)]      # representation invariant: prefix <= width

        def spec(ins, tag, vals, same=(fam_s == fam_o), W=W_s):
            if tag != 'val':
                return False
            if not same:
                return vals[0] == False
            # every address of self's block lies in other's block  <=>  other's prefix is not longer and the top po bits agree
            m = _mask(ins['po'], W)
            return vals[0] == And(_ule(ins['po'], ins['ps']), (ins['a'] & m) == (ins['b'] & m))

        def native(nat, c, fam_s=fam_s, fam_o=fam_o):
            e = f'ip("{ip_text(fam_s == "V6", c["a"], c["ps"])}").isInRange(ip("{ip_text(fam_o == "V6", c["b"], c["po"])}"))'
            return _as_val(eval_long(nat, e))

        def gen(rand, W_s=W_s, W_o=W_o):
            a = rand.getrandbits(W_s)
            po = rand.randint(0, W_o)
            b = rand.getrandbits(W_o)
            if W_s == W_o and rand.random() < 0.7:
                m = _mask(po, W_o)
                b = (a & m) | (b & ~m & ((1 << W_o) - 1))      # make the top po bits agree so that both answers occur
            return {'a': a, 'b': b, 'ps': rand.choice([0, 1, 8, W_s - 1, W_s, rand.randint(0, W_s)]), 'po': rand.choice([0, po, po, W_o])}
        Kk = Kernel(f'IPAddr::is_in_range[{fam_s} in {fam_o}]', f_range, [('a', ty_s), ('b', ty_o), ('ps', 'u8'), ('po', 'u8')], None, dec_bool, spec,
                    native=native, make=make, gen=gen, mode='bv', expect_tags=('val',))
        Kk.samples_fn = (lambda W_s=W_s, W_o=W_o: [{'a': 0xC0A80001 if W_s == 32 else 1, 'b': 0x0A000000 if W_o == 32 else 0xff << 120, 'ps': W_s, 'po': 0},
                                                    {'a': 0, 'b': 0, 'ps': 0, 'po': 0}, {'a': (1 << W_s) - 1, 'b': (1 << W_o) - 1, 'ps': W_s, 'po': W_o},
                                                    {'a': 5, 'b': 4, 'ps': W_s, 'po': W_o - 1}, {'a': 5, 'b': 4, 'ps': W_s - 1, 'po': W_o}])
        K.append(Kk)
    for meth, v4lo, v4p, v6spec in (('is_loopback', 127, 8, 'loop'), ('is_multicast', 14, 4, 'multi')):
        f = P.method('extensions/ipaddr.rs', meth, nargs=1, arg0=r'&IPAddr')
        for fam in ('V4', 'V6'):
            W = 32 if fam == 'V4' else 128
            ty = 'u32' if fam == 'V4' else 'u128'

            def make(ex, fam=fam, ty=ty, W=W):
                a, p = ex.fresh_int(ty, 'a'), ex.fresh_int('u8', 'p')
                ex.initial_heap = {'S': ipval(ex, fam, a, p)}
                from ..executor import Ref
                return {'a': a.t, 'p': p.t}, [Ref(0, ('local', 'S'))], [z3.ULE(p.t, W)]

            def spec(ins, tag, vals, fam=fam, meth=meth, W=W):
                if tag != 'val':
                    return False
                a, p = ins['a'], ins['p']
                # the whole block is inside 127.0.0.0/8 | ::1/128 | 224.0.0.0/4 | ff00::/8
                if meth == 'is_loopback':
                    inside = And((a & _mask(8, 32)) == (127 << 24), _ule(8, p)) if fam == 'V4' else And(a == 1, _ule(128, p))
                else:
                    inside = And((a & _mask(4, 32)) == (14 << 28), _ule(4, p)) if fam == 'V4' else And((a & _mask(8, 128)) == (0xff << 120), _ule(8, p))
                return vals[0] == inside

            def native(nat, c, fam=fam, meth=meth):
                cedar = 'isLoopback' if meth == 'is_loopback' else 'isMulticast'
                return _as_val(eval_long(nat, f'ip("{ip_text(fam == "V6", c["a"], c["p"])}").{cedar}()'))

            def gen(rand, fam=fam, meth=meth, W=W):
                a = rand.getrandbits(W)
                if rand.random() < 0.6:
                    if meth == 'is_loopback':
                        a = ((127 << 24) | rand.getrandbits(24)) if fam == 'V4' else rand.choice([1, 1, 0, 2])
                    else:
                        a = ((14 << 28) | rand.getrandbits(28)) if fam == 'V4' else ((0xff << 120) | rand.getrandbits(120))
                return {'a': a, 'p': rand.choice([0, 3, 4, 7, 8, 9, W - 1, W, rand.randint(0, W)])}
            K.append(Kernel(f'IPAddr::{meth}[{fam}]', f, [('a', ty), ('p', 'u8')], None, dec_bool, spec, native=native, make=make, gen=gen, mode='bv', expect_tags=('val',)))
    return K


# ---------------------------------------------------------------------------------------------- decimal / UTC offset

def decimal_text(v):
    a = abs(v)
    return ('-' if v < 0 else '') + f'{a // 10000}.{a % 10000:04d}'


def misc_kernels(ctx):
    P = ctx.prog('core')
    K = []
    # decimal comparisons: the boolean handed to Value::from is <, <=, >, >= of the two raw values, left argument first
    for meth, cedar, op in (('decimal_lt', 'lessThan', lambda a, b: a < b), ('decimal_le', 'lessThanOrEqual', lambda a, b: a <= b),
                            ('decimal_gt', 'greaterThan', lambda a, b: a > b), ('decimal_ge', 'greaterThanOrEqual', lambda a, b: a >= b)):
        f = P.method('extensions/decimal.rs', meth, nargs=2)

        def make(ex):
            from ..executor import Ref, Opaque
            from ..models import ok as OK
            a, b = ex.fresh_int('i64', 'left'), ex.fresh_int('i64', 'right')
            lv, rv = Opaque('ast::value::Value', 'left value'), Opaque('ast::value::Value', 'right value')
            vals = {lv.id: a, rv.id: b}

            def as_decimal(ex, st, c, A):
                v = ex.read(st, A[0].fid, A[0].place)
                return OK(ex.new_cell(st, Agg('struct', 'Decimal', None, [vals[v.id]], ('value',)), 'decimal'))
            ex.stub(r'(^|::)as_decimal$', as_decimal, 'as_decimal: both arguments are decimals with arbitrary raw values (type errors are C02)')
            ex.stub(r'<.*ExtensionOutputValue as From<.*Value>>::from$|<.*Value as Into<.*ExtensionOutputValue>>::into$', lambda ex, st, c, A: A[0], 'Value -> ExtensionOutputValue (identity wrapper)')
            ex.initial_heap = {'L': lv, 'R': rv}
            return {'a': a.t, 'b': b.t}, [Ref(0, ('local', 'L')), Ref(0, ('local', 'R'))], []

        def decode(ex, o):
            v = o.val
            try:
                lit = v.fields[0].fields[0].fields[0]
                if v.variant == 'Ok' and lit.variant == 'Bool':
                    return 'val', [lit.fields[0].t]
            except (AttributeError, IndexError):
                pass
            raise NotEncoded(f'{meth} result {v!r}')

        def spec(ins, tag, vals, op=op):
            return tag == 'val' and (vals[0] == op(ins['a'], ins['b']))

        def native(nat, c, cedar=cedar):
            return _as_val(eval_long(nat, f'decimal("{decimal_text(c["a"])}").{cedar}(decimal("{decimal_text(c["b"])}"))'))
        K.append(Kernel(f'decimal::{meth}', f, [('a', 'i64'), ('b', 'i64')], None, decode, spec, native=native, make=make, expect_tags=('val',),
                        samples=[(0, 0), (1, 0), (0, 1), (-1, 1), (I64_MIN, I64_MAX), (I64_MAX, I64_MIN), (I64_MIN, I64_MIN), (5, 5), (-5, -5), (10000, 9999)]))

    # checked_mul_pow(x, y) for y <= 4 (the only exponents its caller passes): Ok(x * 10^y) iff it fits
    f = P.method('extensions/decimal.rs', 'checked_mul_pow', nargs=2)

    def spec_pow(ins, tag, vals):
        y = ins['y']
        p = If(y == 0, 1, If(y == 1, 10, If(y == 2, 100, If(y == 3, 1000, 10000))))
        e = ins['x'] * p
        if tag == 'Ok':
            return And(in_range(e, 'i64'), vals[0] == e)
        if tag == 'Err':
            return Not(in_range(e, 'i64'))
        return False

    def native_pow(nat, c):
        if c['y'] != 4 or c['x'] == I64_MIN:
            return None                      # only x * 10^4 is reachable for an arbitrary x through decimal("<x>.0")
        a = nat.ask({'op': 'eval', 'expr': f'decimal("{c["x"]}.0")'})
        if 'ok' in a:
            import re as _re
            m = _re.search(r'(-?)(\d+)\.(\d{1,4})', a['ok']['v'])
            return 'Ok', [int(m.group(1) + m.group(2) + m.group(3).ljust(4, '0'))]
        return 'Err', []
    K.append(Kernel('decimal::checked_mul_pow', f, [('x', 'i64'), ('y', 'u32')], lambda ex, i: [i['x'], i['y']], lambda ex, o: scalars_only(flat(ex, o)), spec_pow,
                    native=native_pow, pre=lambda x, y: y <= 4, expect_tags=('Ok', 'Err'),
                    samples=[(922337203685477, 4), (922337203685478, 4), (-922337203685477, 4), (-922337203685478, 4), (0, 4), (1, 4), (-1, 4)]))

    # UTCOffset::{is_valid, to_seconds}: hh, mm are what two captured digits can produce (<= 99)
    fv = P.method('extensions/datetime.rs', 'is_valid', nargs=1, arg0=r'&UTCOffset')
    fs = P.method('extensions/datetime.rs', 'to_seconds', nargs=1, arg0=r'&UTCOffset')

    def mk_off(ex, i):
        from ..executor import Ref
        ex.initial_heap = {'U': Agg('struct', 'UTCOffset', None, [i['pos'], i['hh'], i['mm']], ('positive', 'hh', 'mm'))}
        return [Ref(0, ('local', 'U'))]

    def native_off(nat, c, want):
        s = f'datetime("2000-01-01T00:00:00{"+" if c["pos"] else "-"}{c["hh"]:02d}{c["mm"]:02d}")'
        r = eval_long(nat, epoch_of(s))
        if want == 'valid':
            return 'val', [r[0] == 'Some']
        if r[0] != 'Some':
            return None
        return 'val', [(946684800000 - r[1][0]) // 1000]
    K.append(Kernel('UTCOffset::is_valid', fv, [('pos', 'bool'), ('hh', 'u32'), ('mm', 'u32')], mk_off, lambda ex, o: ('val', [o.val.t]),
                    lambda ins, tag, vals: tag == 'val' and (vals[0] == And(ins['hh'] < 24, ins['mm'] < 60)), native=lambda nat, c: native_off(nat, c, 'valid'),
                    pre=lambda pos, hh, mm: And(hh <= 99, mm <= 99), expect_tags=('val',), samples=[(True, 23, 59), (True, 24, 0), (False, 0, 60), (False, 23, 59), (True, 0, 0), (True, 99, 99)]))
    K.append(Kernel('UTCOffset::to_seconds', fs, [('pos', 'bool'), ('hh', 'u32'), ('mm', 'u32')], mk_off, lambda ex, o: scalars_only(flat(ex, o)),
                    lambda ins, tag, vals: tag == 'val' and (vals[0] == If(ins['pos'], 1, -1) * (ins['hh'] * 3600 + ins['mm'] * 60)), native=lambda nat, c: native_off(nat, c, 'seconds'),
                    pre=lambda pos, hh, mm: And(hh <= 99, mm <= 99), expect_tags=('val',), samples=[(True, 23, 59), (False, 23, 59), (False, 0, 1), (True, 12, 30), (False, 12, 30)]))
    return K


# ---------------------------------------------------------------------------------------------- parse_duration: arithmetic tail

UNITS = [(2, 'd', 86_400_000), (4, 'h', 3_600_000), (6, 'm', 60_000), (8, 's', 1000), (10, 'ms', 1)]


def duration_kernel(ctx):
    """parse_duration with the regex front end replaced by an ABSTRACT TOKENIZER (trusted model): capture group k is absent, or present
    with a numeral that fits u64 (value n_k), or present with a numeral that does not fit u64.  Everything after the captures - sign handling,
    unit factors, range checks - is the real code."""
    P = ctx.prog('core')
    f = P.method('extensions/datetime.rs', 'parse_duration', nargs=1)

    def make(ex):
        from ..executor import Ref, Opaque, StrV
        from ..models import ok as OK, err as ERR, some as SOME, none as NONE
        NEG = ex.fresh_bool('neg')
        ins = {'neg': NEG.t}
        grp = {}
        for idx, u, _ in UNITS:
            grp[idx] = (ex.fresh_bool(f'has_{u}').t, ex.fresh_bool(f'fits_{u}').t, ex.fresh_int('u64', f'n_{u}'))
            ins[f'has_{u}'], ins[f'fits_{u}'], ins[f'n_{u}'] = grp[idx][0], grp[idx][1], grp[idx][2].t
        ex.stub(r'<impl str>::is_empty$', lambda ex, st, c, A: BoolV(z3.BoolVal(False)), 'str::is_empty: the input is not empty (empty input is rejected before the code under test)')
        ex.stub(r'<&str as PartialEq>::eq$', lambda ex, st, c, A: BoolV(z3.BoolVal(False)), 'the input is not "-"')
        ex.stub(r'<LazyLock<regex::Regex> as Deref>::deref$', lambda ex, st, c, A: ex.new_cell(st, Opaque('regex::Regex', 'DURATION_PATTERN'), 'regex'), 'DURATION_PATTERN (opaque)')
        ex.stub(r'Regex::captures$', lambda ex, st, c, A: SOME(Opaque("regex::Captures<'_>", 'captures')), 'Regex::captures: the pattern matches (abstract tokenizer)')

        def cap_get(ex, st, c, A):
            i = ex.concrete(A[1].t)
            if i not in grp:
                raise NotEncoded(f'capture group {i}')
            return [([grp[i][0]], SOME(Opaque("regex::Match<'_>", f'group{i}'))), ([z3.Not(grp[i][0])], NONE())]
        ex.stub(r"Captures::<'_>::get$", cap_get, 'Captures::get(k): group k present or absent (abstract tokenizer)')
        ex.stub(r"Match::<'_>::as_str$", lambda ex, st, c, A: A[0] if isinstance(A[0], Ref) else ex.new_cell(st, A[0], 'group'), 'Match::as_str (the group itself)')

        def parse(ex, st, c, A):
            g = A[0]
            while isinstance(g, Ref):
                g = ex.read(st, g.fid, g.place)
            i = int(g.what.replace('group', ''))
            return [([grp[i][1]], OK(grp[i][2])), ([z3.Not(grp[i][1])], ERR(Opaque('ParseIntError', 'numeral does not fit u64')))]
        ex.stub(r'<impl str>::parse::<u64>$', parse, 'str::parse::<u64>: the numeral fits u64 (value n_k) or does not (abstract tokenizer)')
        ex.stub(r'<impl str>::starts_with::<char>$', lambda ex, st, c, A: BoolV(NEG.t), "str::starts_with('-'): the sign bit")
        ex.initial_heap = {'S': Opaque('str', 'input')}
        pre = [z3.Or([grp[i][0] for i in grp])]          # a non-empty match has at least one unit group
        return ins, [Ref(0, ('local', 'S'))], pre

    def spec(ins, tag, vals):
        bad = Or(*[And(ins[f'has_{u}'], Not(ins[f'fits_{u}'])) for _, u, _ in UNITS])
        mag = 0
        for _, u, k in UNITS:
            mag = mag + If(ins[f'has_{u}'], ins[f'n_{u}'], 0) * k
        total = If(ins['neg'], -mag, mag)
        if tag == 'Ok':
            return And(Not(bad), in_range(total, 'i64'), vals[0] == total)
        if tag == 'Err':
            return Or(bad, Not(in_range(total, 'i64')))
        return False

    def native(nat, c):
        s = '-' if c['neg'] else ''
        for _, u, _k in UNITS:
            if c[f'has_{u}']:
                s += (str(c[f'n_{u}']) if c[f'fits_{u}'] else '99999999999999999999999') + u
        tag, vals = eval_long(nat, f'duration("{s}").toMilliseconds()')
        return ('Ok', vals) if tag == 'Some' else (('Err', []) if tag == 'None' else (tag, vals))

    def gen(rand):
        c = {'neg': rand.random() < 0.5}
        for _, u, k in UNITS:
            c[f'has_{u}'] = rand.random() < 0.5
            c[f'fits_{u}'] = rand.random() < 0.9
            lim = (1 << 63) // k
            c[f'n_{u}'] = rand.choice([0, 1, lim, lim + 1, lim - 1, (1 << 63) - 1, 1 << 63, (1 << 64) - 1, rand.randint(0, lim), rand.randint(0, 1 << 40)])
        if not any(c[f'has_{u}'] for _, u, _ in UNITS):
            c['has_ms'] = True
        return c
    inputs = [('neg', 'bool')] + [x for _, u, _ in UNITS for x in ((f'has_{u}', 'bool'), (f'fits_{u}', 'bool'), (f'n_{u}', 'u64'))]
    base = {'neg': False, **{f'has_{u}': False for _, u, _ in UNITS}, **{f'fits_{u}': True for _, u, _ in UNITS}, **{f'n_{u}': 0 for _, u, _ in UNITS}}
    K = Kernel('parse_duration (arithmetic tail)', f, inputs, None, lambda ex, o: scalars_only(flat(ex, o)), spec, native=native, make=make, gen=gen, expect_tags=('Ok', 'Err'))
    K.samples_fn = lambda: [dict(base, has_ms=True, n_ms=(1 << 63) - 1), dict(base, has_ms=True, n_ms=1 << 63), dict(base, neg=True, has_ms=True, n_ms=1 << 63),
                            dict(base, neg=True, has_ms=True, n_ms=(1 << 63) + 1), dict(base, has_s=True, n_s=(1 << 64) - 1), dict(base, neg=True, has_h=True, n_h=(1 << 64) - 1),
                            dict(base, has_d=True, n_d=106751991167), dict(base, has_d=True, n_d=106751991168), dict(base, has_d=True, n_d=1, has_ms=True, n_ms=5, neg=True),
                            dict(base, has_s=True, fits_s=False)]
    return K


def _as_val(r):
    tag, vals = r
    return ('val', vals) if tag in ('Some', 'Bool') else (tag, vals)


def families(ctx):
    ks = []
    ctx.guarded('C07/locate-kernels', lambda: ks.extend(kernels(ctx)))
    ctx.guarded('C07/locate-ip-kernels', lambda: ks.extend(ip_kernels(ctx)))
    ctx.guarded('C07/locate-decimal-offset-kernels', lambda: ks.extend(misc_kernels(ctx)))
    ctx.guarded('C07/locate-parse_duration', lambda: ks.append(duration_kernel(ctx)))
    return [(K.name, (lambda K=K: run_kernel(ctx, K))) for K in ks]


def run(ctx):
    ctx.run_families(families(ctx))
    ctx.bounds += ['all i64 / u32 inputs at full width (Int-mode encoding, no unrolling: kernels are loop-free)']
    ctx.assumptions += ['model catalogue (mir2smt/models.py) for core::num checked_*/rem_euclid/is_negative and Option/Try plumbing',
                        'rustc MIR of the working tree (nightly, overflow-checks=on) is the semantics of the kernels',
                        'replay / translator validation reach the kernels through cedar_policy::eval_expression']
    return ctx.finish('Solver-decided (z3 + cvc5, Int-mode SMT) exactness of the arithmetic kernels behind the extension types, executed symbolically from the rustc MIR of the current tree: '
                      'each path of each kernel is one query pc /\\ not(spec); plus path-coverage, reachability witnesses and translator validation against the natively compiled real code.')
