"""C07 - extension types compute exact results: the scalar kernels behind datetime / duration / decimal (engine M)."""
import z3
from ..framework import (Kernel, run_kernel, And, Or, Not, Implies, If, tdiv, emod, in_range, I64_MIN, I64_MAX, MachineryError)
from ..executor import IntV, BoolV, Agg, Opaque, Ref, NotEncoded
from ..models import ok, err
from .common import flat, scalars_only, eval_long, dt, dur, epoch_of

DAY = 86_400_000
DT = r'extensions/datetime\.rs'


def struct1(name, v):
    return Agg('struct', name, None, [v])


def kernels(ctx):
    P = ctx.prog('core')
    dtf = lambda n, a0=r'^extensions::datetime::(DateTime|Duration)$': P.method('extensions/datetime.rs', n, arg0=a0)
    dec = lambda o_ex: None
    K = []

    def opt_i64(ex, o):
        return scalars_only(flat(ex, o))

    # ---- DateTime::offset / duration_since
    def spec_add(ins, tag, vals):
        s = ins['e'] + ins['d']
        return If(tag == 'Some', And(len(vals) == 1, vals[0] == s, in_range(s, 'i64')) if tag == 'Some' else False,
                  Not(in_range(s, 'i64')) if tag == 'None' else False) if tag in ('Some', 'None') else False
    def spec_offset(ins, tag, vals):
        s = ins['e'] + ins['d']
        if tag == 'Some':
            return And(vals[0] == s, in_range(s, 'i64'))
        if tag == 'None':
            return Not(in_range(s, 'i64'))
        return False
    K.append(Kernel('DateTime::offset', dtf('offset'), [('e', 'i64'), ('d', 'i64')],
                    lambda ex, i: [struct1('DateTime', i['e']), struct1('Duration', i['d'])], opt_i64, spec_offset,
                    native=lambda nat, c: eval_long(nat, epoch_of(f'{dt(c["e"])}.offset({dur(c["d"])})')),
                    expect_tags=('Some', 'None'), samples=[(I64_MAX, 1), (I64_MIN, -1), (I64_MAX, 0), (I64_MIN, I64_MAX), (-1, I64_MIN)]))

    def spec_since(ins, tag, vals):
        s = ins['a'] - ins['b']
        if tag == 'Some':
            return And(vals[0] == s, in_range(s, 'i64'))
        if tag == 'None':
            return Not(in_range(s, 'i64'))
        return False
    K.append(Kernel('DateTime::duration_since', dtf('duration_since'), [('a', 'i64'), ('b', 'i64')],
                    lambda ex, i: [struct1('DateTime', i['a']), struct1('DateTime', i['b'])], opt_i64, spec_since,
                    native=lambda nat, c: eval_long(nat, f'{dt(c["a"])}.durationSince({dt(c["b"])}).toMilliseconds()'),
                    expect_tags=('Some', 'None'), samples=[(I64_MIN, 1), (0, I64_MIN), (-1, I64_MIN), (I64_MAX, -1), (I64_MIN, I64_MIN)]))

    # ---- DateTime::to_date: the day floor d (d <= e < d + DAY, d multiple of DAY) when representable, else overflow
    def spec_to_date(ins, tag, vals):
        e = ins['e']
        d = e - emod(e, DAY)
        if tag == 'Some':
            return And(vals[0] == d, d >= I64_MIN)
        if tag == 'None':
            return d < I64_MIN
        return False
    K.append(Kernel('DateTime::to_date', dtf('to_date'), [('e', 'i64')], lambda ex, i: [struct1('DateTime', i['e'])], opt_i64, spec_to_date,
                    native=lambda nat, c: eval_long(nat, epoch_of(f'{dt(c["e"])}.toDate()')), expect_tags=('Some', 'None'),
                    samples=[(I64_MIN,), (I64_MIN + 1,), (I64_MIN + 51_951_615,), (I64_MIN + DAY,), (-DAY,), (-DAY - 1,), (-DAY + 1,), (DAY,), (DAY - 1,), (I64_MAX,),
                             (-9223372036800000000,), (-9223372036800000001,), (-9223372036799999999,)]))

    # ---- DateTime::to_time: 0 <= t < DAY and t = e (mod DAY)
    def spec_to_time(ins, tag, vals):
        if tag != 'val':
            return False
        return vals[0] == emod(ins['e'], DAY)
    K.append(Kernel('DateTime::to_time', dtf('to_time'), [('e', 'i64')], lambda ex, i: [struct1('DateTime', i['e'])], opt_i64, spec_to_time,
                    native=lambda nat, c: _as_val(eval_long(nat, f'{dt(c["e"])}.toTime().toMilliseconds()')), expect_tags=('val',),
                    samples=[(I64_MIN,), (-1,), (-DAY,), (-DAY - 1,), (DAY,), (I64_MAX,)]))

    # ---- Duration::to_*: truncating quotients
    for meth, div, cedar in (('to_milliseconds', 1, 'toMilliseconds'), ('to_seconds', 1000, 'toSeconds'), ('to_minutes', 60_000, 'toMinutes'),
                             ('to_hours', 3_600_000, 'toHours'), ('to_days', 86_400_000, 'toDays')):
        def spec_q(ins, tag, vals, div=div):
            if tag != 'val':
                return False
            return vals[0] == tdiv(ins['ms'], div)
        K.append(Kernel(f'Duration::{meth}', dtf(meth, r'^extensions::datetime::Duration$'),
                        [('ms', 'i64')], lambda ex, i: [struct1('Duration', i['ms'])], opt_i64, spec_q,
                        native=lambda nat, c, cedar=cedar: _as_val(eval_long(nat, f'{dur(c["ms"])}.{cedar}()')), expect_tags=('val',),
                        samples=[(I64_MIN,), (I64_MAX,), (-div,), (-div - 1,), (-div + 1,), (div,), (div - 1,), (-1,), (0,), (1,)]))
    return K


def _as_val(r):
    tag, vals = r
    return ('val', vals) if tag in ('Some', 'Bool') else (tag, vals)


def families(ctx):
    ks = []
    ctx.guarded('C07/locate-kernels', lambda: ks.extend(kernels(ctx)))
    return [(K.name, (lambda K=K: run_kernel(ctx, K))) for K in ks]


def run(ctx):
    for name, fn in families(ctx):
        ctx.guarded(name, fn)
    ctx.bounds += ['all i64 / u32 inputs at full width (Int-mode encoding, no unrolling: kernels are loop-free)']
    ctx.assumptions += ['model catalogue (mir2smt/models.py) for core::num checked_*/rem_euclid/is_negative and Option/Try plumbing',
                        'rustc MIR of the working tree (nightly, overflow-checks=on) is the semantics of the kernels',
                        'replay / translator validation reach the kernels through cedar_policy::eval_expression']
    return ctx.finish('Solver-decided (z3 + cvc5, Int-mode SMT) exactness of the arithmetic kernels behind the extension types, executed symbolically from the rustc MIR of the current tree: '
                      'each path of each kernel is one query pc /\\ not(spec); plus path-coverage, reachability witnesses and translator validation against the natively compiled real code.')
