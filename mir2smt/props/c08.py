"""C08 - policy-set edits keep ids consistent (engine M): ONE operation from an ARBITRARY state satisfying the
representation invariant, with the three LinkedHashMaps of `PolicySet` modelled as SMT arrays over an uninterpreted
PolicyID sort (abstract-map model, part of the trusted base).  Covers histories of any length by induction."""
import z3
from ..executor import IntV, BoolV, Agg, Opaque, Ref, NotEncoded, UNIT, SymV, AMap, ASet, StrV
from ..models import ok, err, some, none, scalar

PID = z3.DeclareSort('PID')
TPL = z3.DeclareSort('TPL')
POL = z3.DeclareSort('POL')
tmpl_id = z3.Function('tmpl_id', TPL, PID)
pol_id = z3.Function('pol_id', POL, PID)
pol_tmpl = z3.Function('pol_tmpl', POL, TPL)
is_static = z3.Function('is_static', TPL, z3.BoolSort())      # the template is the body of a static policy (no slots)
SORTS = {'PID': PID, 'TPL': TPL, 'POL': POL}
EMPTY = z3.K(PID, z3.BoolVal(False))


def fresh_state(tag=''):
    T = AMap('templates', z3.Array('T_pres' + tag, PID, z3.BoolSort()), z3.Array('T_val' + tag, PID, TPL), 'TPL')
    L = AMap('links', z3.Array('L_pres' + tag, PID, z3.BoolSort()), z3.Array('L_val' + tag, PID, POL), 'POL')
    M = AMap('template_to_links_map', z3.Array('M_pres' + tag, PID, z3.BoolSort()), z3.Array('M_val' + tag, PID, z3.ArraySort(PID, z3.BoolSort())), 'set')
    return T, L, M


def inv(T, L, M):
    k, t = z3.Const('k', PID), z3.Const('t', PID)
    lt = lambda x: tmpl_id(pol_tmpl(z3.Select(L.val, x)))
    return [
        ('keys(template_to_links_map) = keys(templates)', z3.ForAll([k], z3.Select(T.pres, k) == z3.Select(M.pres, k))),
        ('templates are stored under their own id', z3.ForAll([k], z3.Implies(z3.Select(T.pres, k), tmpl_id(z3.Select(T.val, k)) == k))),
        ('links are stored under their own id', z3.ForAll([k], z3.Implies(z3.Select(L.pres, k), pol_id(z3.Select(L.val, k)) == k))),
        ("every link's template is in templates (no link without its template)",
         z3.ForAll([k], z3.Implies(z3.Select(L.pres, k), z3.And(z3.Select(T.pres, lt(k)), z3.Select(T.val, lt(k)) == pol_tmpl(z3.Select(L.val, k)))))),
        ('template_to_links_map[t] = { links of t }',
         z3.ForAll([t, k], z3.Implies(z3.Select(M.pres, t), z3.Select(z3.Select(M.val, t), k) == z3.And(z3.Select(L.pres, k), lt(k) == t)))),
        ('an id that names both a template and a link is a static policy linked to itself',
         z3.ForAll([k], z3.Implies(z3.And(z3.Select(T.pres, k), z3.Select(L.pres, k)), lt(k) == k))),
        ('a static policy (template that is also a link id) has no other link',
         z3.ForAll([t, k], z3.Implies(z3.And(z3.Select(T.pres, t), z3.Select(L.pres, t), z3.Select(L.pres, k), lt(k) == t), k == t))),
        ('the only link of a static template is the static policy itself (the public API refuses to link a static policy)',
         z3.ForAll([k], z3.Implies(z3.And(z3.Select(L.pres, k), is_static(pol_tmpl(z3.Select(L.val, k)))), lt(k) == k))),
        ('an id that names both a template and a link belongs to a static policy',
         z3.ForAll([k], z3.Implies(z3.And(z3.Select(T.pres, k), z3.Select(L.pres, k)), is_static(z3.Select(T.val, k))))),
    ]


def same(A, B):
    return z3.And(A.pres == B.pres, z3.ForAll([z3.Const('k', PID)], z3.Implies(z3.Select(A.pres, z3.Const('k', PID)),
                                                                                 z3.Select(A.val, z3.Const('k', PID)) == z3.Select(B.val, z3.Const('k', PID)))))


def deref(ex, st, v):
    n = 0
    while isinstance(v, Ref) and n < 6:
        v = ex.read(st, v.fid, v.place)
        n += 1
    return v


def keyterm(ex, st, v):
    v = deref(ex, st, v)
    if isinstance(v, SymV) and v.sort == 'PID':
        return v.t
    raise NotEncoded(f'not a policy id: {v!r}')


def wrap(m, t):
    return ASet(t) if m.vkind == 'set' else SymV(m.vkind, t)


def install(ex):
    """the abstract-map model of linked_hash_map / linked_hash_set and uninterpreted accessors of Policy / Template"""
    def mapref(st, r):
        if not isinstance(r, Ref):
            raise NotEncoded(f'map argument {r!r}')
        m = ex.read(st, r.fid, r.place)
        if not isinstance(m, AMap):
            raise NotEncoded(f'not an abstract map: {m!r}')
        return m

    def entry(ex, st, c, A):
        m = mapref(st, A[0])
        k = keyterm(ex, st, A[1])
        e = Agg('struct', '~entry', None, [A[0], SymV('PID', k)])
        p = z3.Select(m.pres, k)
        return [([p], Agg('variant', 'Entry', 'Occupied', [e])), ([z3.Not(p)], Agg('variant', 'Entry', 'Vacant', [e]))]
    ex.stub(r'LinkedHashMap::<.*>::entry$', entry, 'abstract map: entry')

    def vinsert(ex, st, c, A):
        e = A[0]
        r, k = e.fields[0], e.fields[1].t
        v = deref(ex, st, A[1])
        def eff(s2):
            m = ex.read(s2, r.fid, r.place)
            t = v.mem if isinstance(v, ASet) else v.t
            ex.write(s2, r.fid, r.place, AMap(m.name, z3.Store(m.pres, k, True), z3.Store(m.val, k, t), m.vkind))
        return [([], Ref(r.fid, ('mapelem', r.place, k)), eff)]
    ex.stub(r'VacantEntry::<.*>::insert$', vinsert, 'abstract map: VacantEntry::insert')
    ex.stub(r'OccupiedEntry::<.*>::(get|into_mut|get_mut)$', lambda ex, st, c, A: (lambda e: Ref(e.fields[0].fid, ('mapelem', e.fields[0].place, e.fields[1].t)))(deref_entry(ex, st, A[0])), 'abstract map: OccupiedEntry::get / into_mut')
    ex.stub(r'OccupiedEntry::<.*>::key$', lambda ex, st, c, A: ex.new_cell(st, deref_entry(ex, st, A[0]).fields[1], 'key'), 'abstract map: OccupiedEntry::key')

    def or_default(ex, st, c, A):
        ent = A[0]
        e = ent.fields[0]
        r, k = e.fields[0], e.fields[1].t
        if ent.variant == 'Occupied':
            return Ref(r.fid, ('mapelem', r.place, k))
        def eff(s2):
            m = ex.read(s2, r.fid, r.place)
            if m.vkind != 'set':
                raise NotEncoded('or_default on a non-set map')
            ex.write(s2, r.fid, r.place, AMap(m.name, z3.Store(m.pres, k, True), z3.Store(m.val, k, EMPTY), m.vkind))
        return [([], Ref(r.fid, ('mapelem', r.place, k)), eff)]
    ex.stub(r'Entry::<.*>::or_default$', or_default, 'abstract map: Entry::or_default')

    def remove(ex, st, c, A):
        m = mapref(st, A[0])
        k = keyterm(ex, st, A[1])
        p = z3.Select(m.pres, k)
        r = A[0]
        def eff(s2):
            m2 = ex.read(s2, r.fid, r.place)
            ex.write(s2, r.fid, r.place, AMap(m2.name, z3.Store(m2.pres, k, False), m2.val, m2.vkind))
        return [([p], some(wrap(m, z3.Select(m.val, k))), eff), ([z3.Not(p)], none(), None)]
    ex.stub(r'LinkedHashMap::<.*>::remove::<', remove, 'abstract map: remove')

    def insert(ex, st, c, A):
        m = mapref(st, A[0])
        k = keyterm(ex, st, A[1])
        v = deref(ex, st, A[2])
        r = A[0]
        def eff(s2):
            m2 = ex.read(s2, r.fid, r.place)
            t = v.mem if isinstance(v, ASet) else v.t
            ex.write(s2, r.fid, r.place, AMap(m2.name, z3.Store(m2.pres, k, True), z3.Store(m2.val, k, t), m2.vkind))
        return [([], Opaque('Option<V>', 'previous value'), eff)]
    ex.stub(r'LinkedHashMap::<.*>::insert$', insert, 'abstract map: insert')
    ex.stub(r'LinkedHashMap::<.*>::contains_key::<', lambda ex, st, c, A: BoolV(z3.Select(mapref(st, A[0]).pres, keyterm(ex, st, A[1]))), 'abstract map: contains_key')

    def get(ex, st, c, A):
        m = mapref(st, A[0])
        k = keyterm(ex, st, A[1])
        p = z3.Select(m.pres, k)
        return [([p], some(Ref(A[0].fid, ('mapelem', A[0].place, k)))), ([z3.Not(p)], none())]
    ex.stub(r'LinkedHashMap::<.*>::get::<', get, 'abstract map: get')

    # ---- sets
    def setref(st, r):
        s = ex.read(st, r.fid, r.place) if isinstance(r, Ref) else r
        if not isinstance(s, ASet):
            raise NotEncoded(f'not an abstract set: {s!r}')
        return s

    def sinsert(ex, st, c, A):
        s = setref(st, A[0])
        k = keyterm(ex, st, A[1])
        r = A[0]
        def eff(s2):
            ex.write(s2, r.fid, r.place, ASet(z3.Store(setref(s2, r).mem, k, True)))
        return [([], BoolV(z3.Not(z3.Select(s.mem, k))), eff)]
    ex.stub(r'LinkedHashSet::<.*>::insert$', sinsert, 'abstract set: insert')

    def sremove(ex, st, c, A):
        s = setref(st, A[0])
        k = keyterm(ex, st, A[1])
        r = A[0]
        def eff(s2):
            ex.write(s2, r.fid, r.place, ASet(z3.Store(setref(s2, r).mem, k, False)))
        return [([], BoolV(z3.Select(s.mem, k)), eff)]
    ex.stub(r'LinkedHashSet::<.*>::remove::<', sremove, 'abstract set: remove')
    ex.stub(r'LinkedHashSet::<.*>::is_empty$', lambda ex, st, c, A: BoolV(setref(st, A[0]).mem == EMPTY), 'abstract set: is_empty')
    ex.stub(r'LinkedHashSet::<.*>::new$', lambda ex, st, c, A: ASet(EMPTY), 'abstract set: new')
    ex.stub(r'(^|::)once::<', lambda ex, st, c, A: Agg('struct', '~once', None, [A[0]]), 'iter::once (term)')

    def collect(ex, st, c, A):
        it = A[0]
        if isinstance(it, Agg) and it.name == '~once':
            return ASet(z3.Store(EMPTY, keyterm(ex, st, it.fields[0]), True))
        if isinstance(it, Agg) and it.name == '~vec_into_iter':
            mem = EMPTY
            for x in it.fields:
                mem = z3.Store(mem, keyterm(ex, st, x), True)
            return ASet(mem)
        raise NotEncoded(f'collect of {it!r}')
    ex.stub(r'as Iterator>::collect::<(linked_hash_set::)?LinkedHashSet<', collect, 'collect into an abstract set')

    def into_vec(ex, st, c, A):
        b = deref(ex, st, A[0])
        if isinstance(b, Agg) and b.name in ('Box',):
            b = b.fields[0]
        if isinstance(b, Agg) and b.kind == 'array':
            return Agg('struct', '~vec', None, list(b.fields))
        raise NotEncoded(f'into_vec of {b!r}')
    ex.stub(r'slice::<impl \[.*\]>::into_vec::<', into_vec, 'vec![..] (term)')
    ex.stub(r'boxed::box_new::<|Box::<\[.*\]>::new$', lambda ex, st, c, A: A[0], 'Box::new of an array literal (identity)')
    ex.stub(r'Box::<\[.*\]>::new_uninit$', lambda ex, st, c, A: Opaque('Box<MaybeUninit<[T; N]>>', 'vec! buffer'), 'vec![..]: Box::new_uninit (opaque buffer written through its pointer)')

    def assume_init(ex, st, c, A):
        try:
            nn = ex.opaque_field(ex.opaque_field(A[0], None, 0, 'Unique'), None, 0, 'NonNull')
            cell = ex.deref(st, nn)
            def fld(x, i):
                return x.fields[i] if isinstance(x, Agg) else x.over[(None, i)]
            arr = fld(fld(fld(cell, 1), 0), 0)
            return Agg('struct', '~vec', None, list(arr.fields))
        except (KeyError, AttributeError, IndexError) as e:
            raise NotEncoded(f'vec! buffer shape: {e}')
    ex.stub(r'box_assume_init_into_vec_unsafe::<', assume_init, 'vec![..]: the array written into the buffer becomes the vector')
    ex.stub(r'<Vec<.*> as IntoIterator>::into_iter$', lambda ex, st, c, A: Agg('struct', '~vec_into_iter', None, list(A[0].fields)) if isinstance(A[0], Agg) and A[0].name == '~vec' else None, 'Vec::into_iter (term)')

    # ---- policies and templates
    def pol(ex, st, v):
        v = deref(ex, st, v)
        if isinstance(v, SymV) and v.sort == 'POL':
            return v.t
        raise NotEncoded(f'not an abstract policy: {v!r}')

    def tpl(ex, st, v):
        v = deref(ex, st, v)
        if isinstance(v, SymV) and v.sort == 'TPL':
            return v.t
        raise NotEncoded(f'not an abstract template: {v!r}')
    ex.stub(r'Policy::id$', lambda ex, st, c, A: ex.new_cell(st, SymV('PID', pol_id(pol(ex, st, A[0]))), 'pid'), 'Policy::id (uninterpreted)')
    ex.stub(r'Policy::template_arc$', lambda ex, st, c, A: SymV('TPL', pol_tmpl(pol(ex, st, A[0]))), 'Policy::template_arc (uninterpreted)')
    ex.stub(r'Policy::template$', lambda ex, st, c, A: ex.new_cell(st, SymV('TPL', pol_tmpl(pol(ex, st, A[0]))), 'tpl'), 'Policy::template (uninterpreted)')
    ex.stub(r'Template::id$', lambda ex, st, c, A: ex.new_cell(st, SymV('PID', tmpl_id(tpl(ex, st, A[0]))), 'tid'), 'Template::id (uninterpreted)')
    ex.stub(r'Arc::<.*Template>::new$', lambda ex, st, c, A: A[0] if isinstance(A[0], SymV) else None, 'Arc::new(template) (identity on abstract templates)')
    ex.stub(r'<Arc<.*Template> as Deref>::deref$', lambda ex, st, c, A: A[0], 'Arc<Template>::deref (abstract templates are their own referent)')
    ex.stub(r'Arc::<.*Template>::unwrap_or_clone$', lambda ex, st, c, A: A[0], 'Arc::unwrap_or_clone (identity)')
    ex.stub(r'<Arc<.*Template> as PartialEq>::(ne|eq)$', lambda ex, st, c, A: BoolV((tpl(ex, st, A[0]) != tpl(ex, st, A[1])) if c.endswith('ne') else (tpl(ex, st, A[0]) == tpl(ex, st, A[1]))), 'Arc<Template> equality = equality of abstract templates')
    ex.stub(r'<&Arc<.*Template> as PartialEq>::(ne|eq)$', lambda ex, st, c, A: BoolV((tpl(ex, st, A[0]) != tpl(ex, st, A[1])) if c.endswith('ne') else (tpl(ex, st, A[0]) == tpl(ex, st, A[1]))), '&Arc<Template> equality')
    ex.stub(r'as Clone>::clone$', lambda ex, st, c, A: deref(ex, st, A[0]) if isinstance(deref(ex, st, A[0]), (SymV, ASet)) else None, 'clone of abstract values')


# ---------------------------------------------------------------------------------------------- native confirmation
IDS = ['a', 'b']


def ref_step(state, op):
    """reference model of the public PolicySet edit API: returns (ok, new_state); state = (templates, statics, links{id: template})"""
    T, S, L = set(state[0]), set(state[1]), dict(state[2])
    used = T | S | set(L)
    k, i = op['op'], op['id']
    if k == 'add_static':
        if i in used:
            return False, state
        S.add(i)
    elif k == 'add_template':
        if i in used:
            return False, state
        T.add(i)
    elif k == 'link':
        if op['template'] not in T or not op['bind'] or i in used:
            return False, state
        L[i] = op['template']
    elif k == 'unlink':
        if i not in L:
            return False, state
        del L[i]
    elif k == 'remove_static':
        if i not in S:
            return False, state
        S.discard(i)
    elif k == 'remove_template':
        if i not in T or i in L.values():
            return False, state
        T.discard(i)
    return True, (frozenset(T), frozenset(S), tuple(sorted(L.items())))


def observe(state):
    T, S, L = state
    L = dict(L)
    pols = sorted([f'{i}<-static' for i in S] + [f'{i}<-{t}' for i, t in L.items()])
    by_id = {i: (sorted(j for j, tt in L.items() if tt == i) if i in T else ([i] if i in S else '<error>')) for i in IDS}       # get_linked_policies(id): the links of a template, the policy itself for a static policy, an error otherwise
    return {'policies': pols, 'templates': sorted(T), 'links': {t: sorted(i for i, tt in L.items() if tt == t) for t in sorted(T)}, 'reasons': sorted(list(S) + list(L)), 'linked_by_id': by_id}


def all_ops():
    ops = []
    for i in IDS:
        ops += [{'op': 'add_static', 'id': i}, {'op': 'add_template', 'id': i}, {'op': 'unlink', 'id': i}, {'op': 'remove_static', 'id': i}, {'op': 'remove_template', 'id': i}]
        for t in IDS:
            ops += [{'op': 'link', 'template': t, 'id': i, 'bind': True}, {'op': 'link', 'template': t, 'id': i, 'bind': False}]
    return ops


def native_search(ctx, name, role, why):
    """confirmation of a solver counterexample: every operation sequence up to length 3 (plus seeded longer ones) over two ids is run against
    the real cedar_policy::PolicySet and compared with the reference model; the first divergence is the replayed violation"""
    import itertools
    ops = all_ops()
    seqs = [list(s) for n in (1, 2, 3) for s in itertools.product(ops, repeat=n)]
    for _ in range(3000):
        seqs.append([ctx.rand.choice(ops) for _ in range(ctx.rand.randint(4, 7))])
    for seq in seqs:
        got = ctx.native.ask({'op': 'policyset_ops', 'ops': seq, 'universe': IDS})
        st = (frozenset(), frozenset(), ())
        for j, (op, g) in enumerate(zip(seq, got.get('steps', []))):
            okk, st = ref_step(st, op)
            exp = observe(st)
            g2 = {k: g[k] for k in ('policies', 'templates', 'links', 'reasons', 'linked_by_id')}
            if g['ok'] != okk or g2 != exp:
                return ctx.violation(name, role, f'{why}; after {seq[:j + 1]} the real PolicySet reports ok={g["ok"]} state={g2}, the operations imply ok={okk} state={exp}',
                                     {'op': 'policyset_ops', 'ops': seq[:j + 1], 'universe': IDS, 'expected': {'ok': okk, **exp}, 'got': g})
    return ctx.mismatch(name, f'{why}; but no operation sequence (exhaustive to length 3 over ids {IDS}, 3000 longer ones) makes the real PolicySet diverge from the reference model')


def deref_entry(ex, st, v):
    v = deref(ex, st, v)
    if isinstance(v, Agg) and v.name == '~entry':
        return v
    raise NotEncoded(f'not an entry: {v!r}')


def run_op(ctx, name, nargs, mkargs, extra_stubs=None, extra_pre=None):
    P = ctx.prog('core')
    f = P.method('ast/policy_set.rs', name, nargs=nargs, arg0=r'&mut ast::policy_set::PolicySet')
    ctx.use(f)
    ex = ctx.new_exec('core')
    install(ex)
    T, L, M = fresh_state()
    ps = Agg('struct', 'ast::policy_set::PolicySet', None, [T, L, M], ('templates', 'links', 'template_to_links_map'))
    args, heap, ins = mkargs(ex)
    heap = dict(heap)
    heap['PS'] = ps
    if extra_stubs:
        extra_stubs(ex, ins)
    outs = ex.run(f, [Ref(0, ('local', 'PS'))] + args, heap=heap)
    ctx.absorb(ex)
    pre = [f for _, f in inv(T, L, M)] + (extra_pre(T, L, M, ins) if extra_pre else [])
    ctx.panic_summary(f'PolicySet::{name}', outs, ex, pre)
    return f, ex, (T, L, M), ins, outs, pre


def post_state(o):
    ps = o.st.frames[0]['PS']
    return ps.fields[0], ps.fields[1], ps.fields[2]


def check_op(ctx, name, nargs, mkargs, ok_effect, ok_requires=None, extra_stubs=None, err_requires=None, extra_pre=None):
    """ok_effect(pre maps, post maps, ins, result value) -> z3 formula describing exactly what a successful call changes"""
    f, ex, (T, L, M), ins, outs, pre = run_op(ctx, name, nargs, mkargs, extra_stubs, extra_pre)
    n_ok = n_err = 0
    done = {}

    def confirm(m):
        if 'r' not in done:
            done['r'] = native_search(ctx, f'PolicySet::{name}', f'ast/policy_set.rs: PolicySet::{name}', f'inductive step of {name} fails in the abstract-map model')
        return done['r']
    for i, o in enumerate(outs):
        if o.kind != 'ret':
            continue
        T2, L2, M2 = post_state(o)
        v = o.val
        base = f'PolicySet::{name}/path{i}:{v.variant}'
        if v.variant == 'Err':
            n_err += 1
            ctx.decide(base + ': a failed operation changes nothing', pre + o.pc + [z3.Not(z3.And(same(T, T2), same(L, L2), same(M, M2)))], ex=ex, on_sat=confirm,
                       sample={'path_condition': [str(c)[:100] for c in o.pc][:5], 'error': repr(v.fields[0])[:120]} if n_err <= 2 else None)
            if err_requires is not None:
                ctx.decide(base + ': fails only for a documented reason', pre + o.pc + [z3.Not(err_requires(T, L, M, ins))], ex=ex, on_sat=confirm)
        else:
            n_ok += 1
            for label, g in inv(T2, L2, M2):
                ctx.decide(f'{base}: invariant preserved: {label}', pre + o.pc + [z3.Not(g)], ex=ex, on_sat=confirm,
                           sample={'path_condition': [str(c)[:100] for c in o.pc][:5]} if n_ok == 1 and label.startswith('keys') else None)
            ctx.decide(base + ': exactly the named ids change', pre + o.pc + [z3.Not(ok_effect((T, L, M), (T2, L2, M2), ins, v.fields[0], o))], ex=ex, on_sat=confirm)
            if ok_requires is not None:
                ctx.decide(base + ': succeeds only when allowed', pre + o.pc + [z3.Not(ok_requires(T, L, M, ins))], ex=ex, on_sat=confirm)
    rets = [o for o in outs if o.kind == 'ret']
    ctx.decide(f'PolicySet::{name}/paths-cover-invariant', pre + [z3.Not(z3.Or([z3.And(o.pc) if o.pc else z3.BoolVal(True) for o in rets]))], ex=ex, on_sat=confirm)
    ctx.decide(f'PolicySet::{name}/witness:Ok', pre + [z3.Or([z3.And(o.pc) if o.pc else z3.BoolVal(True) for o in rets if o.val.variant == 'Ok'] or [z3.BoolVal(False)])], expect='sat', ex=ex)
    ctx.decide(f'PolicySet::{name}/witness:Err', pre + [z3.Or([z3.And(o.pc) if o.pc else z3.BoolVal(True) for o in rets if o.val.variant == 'Err'] or [z3.BoolVal(False)])], expect='sat', ex=ex)


def only_changes(A, B, keys):
    """arrays of map A and B agree outside `keys`"""
    k = z3.Const('k', PID)
    outside = z3.And([k != x for x in keys]) if keys else z3.BoolVal(True)
    return z3.ForAll([k], z3.Implies(outside, z3.And(z3.Select(A.pres, k) == z3.Select(B.pres, k),
                                                   z3.Implies(z3.Select(A.pres, k), z3.Select(A.val, k) == z3.Select(B.val, k)))))


def families(ctx):
    fam = []
    kid = z3.Const('the_id', PID)

    def id_arg(ex):
        return [Ref(0, ('local', 'ID'))], {'ID': SymV('PID', kid)}, {'id': kid}

    # remove_static(id): Ok => id was a static policy; afterwards gone from all three maps, nothing else changes
    fam.append(('remove_static', lambda: check_op(
        ctx, 'remove_static', 2, id_arg,
        lambda pre, post, ins, res, o: z3.And(z3.Not(z3.Select(post[0].pres, kid)), z3.Not(z3.Select(post[1].pres, kid)), z3.Not(z3.Select(post[2].pres, kid)),
                                              only_changes(pre[0], post[0], [kid]), only_changes(pre[1], post[1], [kid]), only_changes(pre[2], post[2], [kid]),
                                              res.t == z3.Select(pre[1].val, kid)),
        ok_requires=lambda T, L, M, ins: z3.And(z3.Select(T.pres, kid), z3.Select(L.pres, kid)))))

    # unlink(id): Ok => id was a link and not a template; link removed, its template's link set loses id
    def unlink_effect(pre, post, ins, res, o):
        T, L, M = pre
        t = tmpl_id(pol_tmpl(z3.Select(L.val, kid)))
        return z3.And(z3.Not(z3.Select(post[1].pres, kid)), only_changes(L, post[1], [kid]), same(T, post[0]), only_changes(M, post[2], [t]),
                      z3.Select(post[2].pres, t), z3.Not(z3.Select(z3.Select(post[2].val, t), kid)), res.t == z3.Select(L.val, kid))
    fam.append(('unlink', lambda: check_op(ctx, 'unlink', 2, id_arg, unlink_effect,
                                           ok_requires=lambda T, L, M, ins: z3.And(z3.Select(L.pres, kid), z3.Not(z3.Select(T.pres, kid))))))

    # remove_template(id): Ok => id was a template without links and not a link id
    def rt_effect(pre, post, ins, res, o):
        return z3.And(z3.Not(z3.Select(post[0].pres, kid)), z3.Not(z3.Select(post[2].pres, kid)), only_changes(pre[0], post[0], [kid]), same(pre[1], post[1]),
                      only_changes(pre[2], post[2], [kid]), res.t == z3.Select(pre[0].val, kid))
    fam.append(('remove_template', lambda: check_op(ctx, 'remove_template', 2, id_arg, rt_effect,
                                                    ok_requires=lambda T, L, M, ins: z3.And(z3.Select(T.pres, kid), z3.Not(z3.Select(L.pres, kid)),
                                                                                            z3.Select(M.val, kid) == EMPTY))))

    # add_template(t): Ok => id free in both maps; afterwards present with an empty link set
    tnew = z3.Const('the_template', TPL)

    def tpl_arg(ex):
        return [SymV('TPL', tnew)], {}, {'t': tnew}

    def at_effect(pre, post, ins, res, o):
        i = tmpl_id(tnew)
        return z3.And(z3.Select(post[0].pres, i), z3.Select(post[0].val, i) == tnew, z3.Select(post[2].pres, i), z3.Select(post[2].val, i) == EMPTY,
                      only_changes(pre[0], post[0], [i]), same(pre[1], post[1]), only_changes(pre[2], post[2], [i]))
    fam.append(('add_template', lambda: check_op(ctx, 'add_template', 2, tpl_arg, at_effect,
                                                 ok_requires=lambda T, L, M, ins: z3.And(z3.Not(z3.Select(T.pres, tmpl_id(tnew))), z3.Not(z3.Select(L.pres, tmpl_id(tnew)))),
                                                 err_requires=lambda T, L, M, ins: z3.Or(z3.Select(T.pres, tmpl_id(tnew)), z3.Select(L.pres, tmpl_id(tnew))))))

    # add(policy): Ok => link id free; template either new or identical
    pnew = z3.Const('the_policy', POL)

    def pol_arg(ex):
        return [SymV('POL', pnew)], {}, {'p': pnew}

    def add_effect(pre, post, ins, res, o):
        T, L, M = pre
        i, t = pol_id(pnew), pol_tmpl(pnew)
        ti = tmpl_id(t)
        return z3.And(z3.Select(post[1].pres, i), z3.Select(post[1].val, i) == pnew, only_changes(L, post[1], [i]),
                      z3.Select(post[0].pres, ti), z3.Select(post[0].val, ti) == t, only_changes(T, post[0], [ti]),
                      z3.Select(post[2].pres, ti), z3.Select(z3.Select(post[2].val, ti), i), only_changes(M, post[2], [ti]))
    # precondition of `add`: the policy is static (its id is its template's id) - that is all cedar_policy::PolicySet::add lets through
    # (`ExpectedStatic` otherwise); template-linked policies enter through `link`.
    fam.append(('add', lambda: check_op(ctx, 'add', 2, pol_arg, add_effect, extra_pre=lambda T, L, M, ins: [pol_id(pnew) == tmpl_id(pol_tmpl(pnew)), is_static(pol_tmpl(pnew))],
                                        ok_requires=lambda T, L, M, ins: z3.And(z3.Not(z3.Select(L.pres, pol_id(pnew))),
                                                                                z3.Or(z3.Not(z3.Select(T.pres, tmpl_id(pol_tmpl(pnew)))),
                                                                                      z3.Select(T.val, tmpl_id(pol_tmpl(pnew))) == pol_tmpl(pnew))))))
    # add_static(static policy): both ids must be free
    tS, pS = z3.Const('static_template', TPL), z3.Const('static_link', POL)

    def static_arg(ex):
        ex.stub(r'Template::link_static_policy$', lambda ex, st, c, A: Agg('tuple', None, None, [SymV('TPL', tS), SymV('POL', pS)]), 'Template::link_static_policy (uninterpreted: template and link with the same id)')
        return [Opaque('ast::policy::StaticPolicy', 'static policy')], {}, {}

    def as_effect(pre, post, ins, res, o):
        T, L, M = pre
        i = tmpl_id(tS)
        return z3.And(z3.Select(post[0].pres, i), z3.Select(post[0].val, i) == tS, z3.Select(post[1].pres, i), z3.Select(post[1].val, i) == pS,
                      z3.Select(post[2].pres, i), z3.Select(post[2].val, i) == z3.Store(EMPTY, i, True),
                      only_changes(T, post[0], [i]), only_changes(L, post[1], [i]), only_changes(M, post[2], [i]))
    fam.append(('add_static', lambda: check_op(ctx, 'add_static', 2, static_arg, as_effect,
                                               extra_pre=lambda T, L, M, ins: [tmpl_id(tS) == pol_id(pS), pol_tmpl(pS) == tS, is_static(tS)],
                                               ok_requires=lambda T, L, M, ins: z3.And(z3.Not(z3.Select(T.pres, tmpl_id(tS))), z3.Not(z3.Select(L.pres, tmpl_id(tS)))),
                                               err_requires=lambda T, L, M, ins: z3.Or(z3.Select(T.pres, tmpl_id(tS)), z3.Select(L.pres, tmpl_id(tS))))))

    # link(template_id, new_id, values): succeeds only if Template::link does and new_id is free in BOTH maps
    tid, nid = z3.Const('template_id', PID), z3.Const('new_id', PID)
    rnew = z3.Const('linked_policy', POL)
    LINK_OK = z3.Bool('template_link_succeeds')

    def link_arg(ex):
        def tlink(ex, st, c, A):
            t = deref(ex, st, A[0])
            # facts about the (uninterpreted) result are axioms, not path conditions
            ex.invariants.append(z3.Implies(LINK_OK, z3.And(pol_id(rnew) == keyterm(ex, st, A[1]), pol_tmpl(rnew) == t.t)))
            return [([LINK_OK], ok(SymV('POL', rnew))),
                    ([z3.Not(LINK_OK)], err(Opaque('LinkingError', 'slot binding error')))]
        ex.stub(r'Template::link$', tlink, 'Template::link: arbitrary outcome; on success the policy carries the given id and template')
        ex.from_wrappers.add('LinkingError')
        return [SymV('PID', tid), SymV('PID', nid), Opaque('HashMap<SlotId, EntityUID>', 'values')], {}, {}

    def link_effect(pre, post, ins, res, o):
        T, L, M = pre
        rv = deref(ex_holder['ex'], o.st, res)
        return z3.And(same(T, post[0]), z3.Select(post[1].pres, nid), z3.Select(post[1].val, nid) == rnew, only_changes(L, post[1], [nid]),
                      z3.Select(post[2].pres, tid), z3.Select(post[2].val, tid) == z3.Store(z3.Select(M.val, tid), nid, True), only_changes(M, post[2], [tid]),
                      z3.BoolVal(isinstance(rv, SymV)) if not isinstance(rv, SymV) else rv.t == rnew)
    ex_holder = {}

    def link_stubs(ex, ins):
        ex_holder['ex'] = ex
    fam.append(('link', lambda: check_op(ctx, 'link', 4, link_arg, link_effect, extra_stubs=link_stubs,
                                         extra_pre=lambda T, L, M, ins: [z3.Implies(z3.Select(T.pres, tid), z3.Not(is_static(z3.Select(T.val, tid))))],
                                         ok_requires=lambda T, L, M, ins: z3.And(LINK_OK, z3.Select(T.pres, tid), z3.Not(z3.Select(L.pres, nid)), z3.Not(z3.Select(T.pres, nid))),
                                         err_requires=lambda T, L, M, ins: z3.Or(z3.Not(LINK_OK), z3.Not(z3.Select(T.pres, tid)), z3.Select(L.pres, nid), z3.Select(T.pres, nid)))))
    return fam


def run(ctx):
    from . import c08_extra, c08_merge
    ctx.run_families(families(ctx) + c08_extra.families(ctx) + c08_merge.families(ctx))
    ctx.bounds += ['one operation from an arbitrary state satisfying the representation invariant (7 conjuncts, see evidence samples) => operation histories of any length; ids range over an uninterpreted sort']
    ctx.assumptions += ['abstract-map model of linked_hash_map::LinkedHashMap / linked_hash_set::LinkedHashSet (entry, Vacant/OccupiedEntry, or_default, insert, remove, get, contains_key, is_empty, one-element collect) as SMT arrays',
                        'Policy::{id,template,template_arc}, Template::id as uninterpreted functions; Arc<Template> equality = equality of abstract templates (what `==` compares on Template / Policy / TemplateBodyImpl / StaticPolicy is its own obligation: every component but the source location)',
                        'merge_policyset: `self` arbitrary (abstract maps), `other` one static policy / one template / one template with one link with symbolic ids and contents; get_fresh_id is a stub (an id bound in neither set, different from earlier ones); Template::new_id / Policy::new_id / new_template_id are uninterpreted with their defining equations',
                        'semantics of a linked policy vs. substituted static policy, larger `other` sets in a merge, Template::link / check_binding and the cedar-policy api.rs wrapper maps are NOT covered']
    return ctx.finish('Solver-decided inductive step for the policy-set edit operations executed from the MIR of the current tree over abstract maps (SMT arrays, quantified invariants): every operation preserves the '
                      'representation invariant (no link without its template, ids consistent across the three maps), a failed operation leaves all three maps extensionally unchanged, and a successful one changes exactly the ids it names; merge_policyset with a small symbolic `other` preserves the invariant, loses nothing of `self` and brings in everything of `other`; `==` on policies / templates compares every component but the source location.')
