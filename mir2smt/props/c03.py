"""C03, a narrow slice - the typing rules of the operators agree with the evaluator's type errors (engine M).
The soundness statement itself (typing and evaluation agree for whole policies, capabilities of `has`, attribute access, schemas) is not decided.  Decided, from the
MIR of validator/typecheck.rs, one operator node at a time with the answers of the recursive `typecheck` calls symbolic (each child typechecks or not, with a
type of one of ten kinds): `typecheck_unary` for `!`, unary `-`, `isEmpty` and `typecheck_binary` for `<`, `<=`, `+`, `-`, `*`, `contains`, `containsAll`,
`containsAny`:
  (a) SOUND: the node is accepted only if every child was accepted with a type on which the evaluator's operator does not raise a type error
      (C02 decides when the evaluator does: `!` on non-booleans, arithmetic and comparison on non-longs (comparison also on two equal comparable extension types),
      isEmpty / contains* on non-sets); the bottom type Never is accepted everywhere (no value has it);
  (b) the type given to the node is the one its values have: boolean for `!`, comparisons, isEmpty, contains*; the negated singleton for `!` of a singleton
      boolean; long for arithmetic;
  (c) NOT SILENT: a node that is rejected although all children were accepted has reported a type error;
  (d) NOT VACUOUS: operands of exactly the expected types are accepted.
`Type::is_subtype` and the typed-expression builder are executed for real; `enforce_strict_equality` (strict mode, contains*) is a stub that accepts or rejects."""
import itertools
import z3
from ..executor import IntV, BoolV, Agg, Opaque, Ref, NotEncoded, UNIT
from ..models import ok, err, some, none
from .. import containers as C
from .c06 import ast_expr, arc, EK

T, F = z3.BoolVal(True), z3.BoolVal(False)
TY = 'validator::types::Type'
BT = 'validator::types::BoolType'
KINDS = ['Never', 'True', 'False', 'Bool', 'Long', 'String', 'Set', 'Entity', 'Record', 'ExtCmp', 'ExtOther', 'SetEnt']
BASE_KINDS = KINDS[:-1]          # SetEnt (a set of entities) is only offered to the `in` node
FILE = 'validator/typecheck.rs'


def mk_type(kind, names):
    if kind == 'Never':
        return Agg('variant', TY, 'Never', [])
    if kind in ('True', 'False'):
        return Agg('variant', TY, 'Bool', [Agg('variant', BT, kind, [])])
    if kind == 'Bool':
        return Agg('variant', TY, 'Bool', [Agg('variant', BT, 'AnyBool', [])])
    if kind in ('Long', 'String'):
        return Agg('variant', TY, kind, [])
    if kind == 'Set':
        return Agg('variant', TY, 'Set', [some(arc(Agg('variant', TY, 'Long', [])))], ('element_type',))
    if kind == 'SetEnt':
        return Agg('variant', TY, 'Set', [some(arc(mk_type('Entity', names)))], ('element_type',))
    if kind == 'Entity':
        return Agg('variant', TY, 'Entity', [Agg('variant', 'validator::types::EntityKind', 'Entity', [Opaque('validator::types::EntityLUB', 'some entity type(s)')])])
    if kind == 'Record':
        return Agg('variant', TY, 'Record', [Opaque('validator::types::Attributes', 'attrs'), Opaque('validator::types::OpenTag', 'open')], ('attrs', 'open_attributes'))
    return Agg('variant', TY, 'ExtensionType', [names[kind]], ('name',))


def strip(ex, st, v, n=10):
    while n > 0:
        n -= 1
        if isinstance(v, Ref):
            v = ex.read(st, v.fid, v.place)
        elif isinstance(v, Agg) and v.name in ('Arc', 'Box') and len(v.fields) == 1:
            v = v.fields[0]
        else:
            break
    return v


def kind_of(ex, st, ty, names):
    """kind name of a concrete Type value (None if it is not one of the harness kinds)"""
    ty = strip(ex, st, ty)
    if not isinstance(ty, Agg) or ty.variant is None:
        return None
    if ty.variant == 'Bool':
        b = strip(ex, st, ty.fields[0])
        return {'AnyBool': 'Bool', 'True': 'True', 'False': 'False'}.get(getattr(b, 'variant', None))
    if ty.variant == 'ExtensionType':
        n = strip(ex, st, ty.fields[0])
        return {names['ExtCmp'].id: 'ExtCmp', names['ExtOther'].id: 'ExtOther'}.get(getattr(n, 'id', None))
    return ty.variant if ty.variant in KINDS else None


def operator_node(ctx, label, fname, build, nkids, safe, result_kind):
    """safe(kinds) -> bool: the evaluator raises no type error on operands of these kinds; result_kind(kinds) -> set of kinds the node's values may have"""
    P = ctx.prog('core')
    f = P.method(FILE, fname, nargs=4)
    ctx.use(f)
    names = {'ExtCmp': Opaque('ast::name::Name', 'a comparable extension type (datetime)'), 'ExtOther': Opaque('ast::name::Name', 'another extension type')}
    kids = [Opaque('ast::expr::Expr', f'child{i}') for i in range(nkids)]
    this = ast_expr(build([arc(k) for k in kids]))
    from .c06 import strip as strip6
    # one run per combination of child kinds would be 121 runs for binary operators: instead the kind of each child is chosen by a symbolic integer and the stub forks
    ex = ctx.new_exec('core')
    ex.havoc_unknown = True
    ex.max_paths = 60000
    ex.max_steps = 20_000_000
    K = [z3.Int(f'kind_of_child{i}') for i in range(nkids)]
    OKC = [z3.Bool(f'child{i}_typechecks') for i in range(nkids)]
    STRICT, SEQ = z3.Bool('strict_mode'), z3.Bool('strict_equality_accepts')
    pre = [z3.And(k >= 0, k < len(BASE_KINDS)) for k in K]
    typed = [[Agg('struct', '~typed', None, [some(mk_type(kn, names)), Opaque('child', f'typed child{i}')]) for kn in KINDS] for i in range(nkids)]
    kidx = {k.id: i for i, k in enumerate(kids)}
    gid = lambda ex_, st, v: getattr(strip(ex_, st, v), 'id', None)
    TA = 'validator::typecheck::typecheck_answer::TypecheckAnswer'

    def typecheck(ex_, st, c, A):
        i = kidx.get(gid(ex_, st, A[2]))
        if i is None:
            return None
        st.notes['visited'] = st.notes.get('visited', []) + [i]
        alts = []
        for j, kn in enumerate(KINDS):
            alts.append(([K[i] == j, OKC[i]], Agg('variant', TA, 'TypecheckSuccess', [typed[i][j], Opaque('CapabilitySet', f'capability of child{i}')], ('expr_type', 'expr_capability'))))
            alts.append(([K[i] == j, z3.Not(OKC[i])], Agg('variant', TA, 'TypecheckFail', [typed[i][j]], ('expr_recovery_type',))))
        return alts
    ex.stub(r'Typechecker::<.*>::typecheck$|Typechecker::typecheck$', typecheck, 'recursive typecheck of child i: accepted or rejected, with a type of one of the kinds ' + ', '.join(KINDS))
    ex.stub(r'Expr::<.*>::expr_kind$|Expr::expr_kind$', lambda ex_, st, c, A: (lambda r: Ref(r.fid, ('field', r.place, 0, 'expr_kind')))(C.base_ref(ex_, st, A[0])) if gid(ex_, st, A[0]) is None else None, 'Expr::expr_kind of the node')

    def data(ex_, st, c, A):
        v = strip(ex_, st, A[0])
        if isinstance(v, Agg) and v.name == '~typed':
            r = C.base_ref(ex_, st, A[0]) if isinstance(A[0], Ref) else None
            return ex_.new_cell(st, v.fields[0], 'data')
        return None
    ex.stub(r'Expr::<.*>::data$', data, 'Expr::data of a typed expression: its type annotation')

    def set_data(ex_, st, c, A):
        v = strip(ex_, st, A[0])
        if isinstance(v, Agg) and v.name == '~typed':
            r = C.base_ref(ex_, st, A[0])
            new = Agg('struct', '~typed', None, [A[1], v.fields[1]])
            return [([], UNIT, lambda s2: ex_.write(s2, r.fid, r.place, new))]
        return None
    ex.stub(r'Expr::<.*>::set_data$', set_data, 'Expr::set_data')
    ex.stub(r'Expr::<.*>::source_loc$|Expr::source_loc$', lambda ex_, st, c, A: ex_.new_cell(st, none(), 'loc'), 'source location (none)')
    ex.stub(r'Option::<&(loc::)?Loc>::cloned$|Option::<(loc::)?Loc>::clone', lambda ex_, st, c, A: none(), 'no source location')
    # the typed-expression builder: the annotation is what matters
    ex.stub(r'ExprBuilder::<.*>::with_data$', lambda ex_, st, c, A: Agg('struct', '~builder', None, [A[0]]), 'ExprBuilder::with_data(annotation)')
    ex.stub(r'ExprBuilder::<.*>::with_same_source_loc::<', lambda ex_, st, c, A: A[0], 'with_same_source_loc')
    ex.stub(r'ExprBuilder<.*> as (expr_builder::)?ExprBuilder>::(not|neg|is_empty|binary_app|less|lesseq|add|sub|mul|contains|contains_all|contains_any)$|ExprBuilder::<.*>::(not|neg|is_empty|binary_app)$',
            lambda ex_, st, c, A: (lambda b: Agg('struct', '~typed', None, [b.fields[0], Opaque('node', 'typed node')]) if isinstance(b, Agg) and b.name == '~builder' else None)(strip(ex_, st, A[0])), 'typed node built with the annotation of the builder')
    ex.stub(r'Expr<.*> as Clone>::clone$', lambda ex_, st, c, A: strip(ex_, st, A[0]), 'clone of a typed expression')
    ex.stub(r'ValidationMode::is_strict$', lambda ex_, st, c, A: BoolV(STRICT), 'validation mode: strict or not')

    def err_push(ex_, st, c, A):
        st.notes['errors'] = st.notes.get('errors', 0) + 1
        return UNIT
    ex.stub(r'Vec::<.*ValidationError>::push$', err_push, 'type_errors.push: counted')
    ex.stub(r'ValidationError::\w+$', lambda ex_, st, c, A: Opaque('ValidationError', 'a type error'), 'ValidationError constructors (term)')

    def strict_eq(ex_, st, c, A):
        # enforce_strict_equality(expr, annotated, ty1, ty2, errors, ctx): accepts (the annotated node) or reports an error and rejects.  Kind-level summary of
        # Type::least_upper_bound in strict mode: types of different kinds have no upper bound (the bottom type and the three boolean types aside); within a kind
        # (two sets, two entity types, ...) either answer is possible
        def rej(s2):
            s2.notes['errors'] = s2.notes.get('errors', 0) + 1
        ks = []
        for a in (A[3], A[4]):
            o = strip(ex_, st, a)
            ks.append(kind_of(ex_, st, o.fields[0], names) if isinstance(o, Agg) and o.variant == 'Some' else None)
        norm = lambda k: 'Bool' if k in BOOLK else k
        compatible = None in ks or 'Never' in ks or norm(ks[0]) == norm(ks[1])
        acc = Agg('variant', TA, 'TypecheckSuccess', [A[2], Opaque('CapabilitySet', 'empty')], ('expr_type', 'expr_capability'))
        if None in ks:
            return acc
        out = [([z3.Not(SEQ)] if compatible else [], Agg('variant', TA, 'TypecheckFail', [A[2]], ('expr_recovery_type',)), rej)]
        return ([([SEQ], acc)] if compatible else []) + out
    ex.stub(r'Typechecker::<.*>::enforce_strict_equality$|Typechecker::enforce_strict_equality$', strict_eq, 'enforce_strict_equality (strict mode): accepts, or reports an error and rejects')
    ex.stub(r'Extension(Schema)?s::<.*>::has_type_with_operator_overloading$|Extension(Schema)?s::has_type_with_operator_overloading$', lambda ex_, st, c, A: BoolV(z3.BoolVal(gid(ex_, st, A[1]) == names['ExtCmp'].id)),
            'has_type_with_operator_overloading: true for the comparable extension type only')
    ex.stub(r'Typechecker::<.*>::expected_comparison_op_types$|Typechecker::expected_comparison_op_types$', lambda ex_, st, c, A: Agg('struct', '~vec', None, []), 'expected types for the error message')
    ex.stub(r'CapabilitySet::<.*>::new$|CapabilitySet::new$', lambda ex_, st, c, A: Opaque('CapabilitySet', 'empty'), 'CapabilitySet::new')
    ex.stub(r'(name::)?Name as PartialEq>::(eq|ne)$', lambda ex_, st, c, A: BoolV(z3.BoolVal((gid(ex_, st, A[0]) == gid(ex_, st, A[1])) == c.endswith('::eq'))), 'Name equality (the two extension types are different)')
    ex.stub(r'PolicyID as Clone>::clone$', lambda ex_, st, c, A: Opaque('PolicyID', 'policy id'), 'PolicyID::clone')
    C.install(ex)
    tc = Opaque('validator::typecheck::Typechecker', 'the typechecker')
    heap = {'TC': tc, 'CAP': Opaque('CapabilitySet', 'prior capability'), 'THIS': this, 'ERRS': Opaque('Vec<ValidationError>', 'type errors so far')}
    outs = ex.run(f, [Ref(0, ('local', 'TC')), Ref(0, ('local', 'CAP')), Ref(0, ('local', 'THIS')), Ref(0, ('local', 'ERRS'))], heap=heap, pre=pre)
    ctx.absorb(ex)
    nm = f'typing rule of {label}'
    ctx.panic_summary(nm, outs, ex, pre)
    rets = [o for o in outs if o.kind == 'ret']
    unsound, wrongty, silent = [], [], []
    accepts_expected = []
    for o in rets:
        v = strip(ex, o.st, o.val)
        if not (isinstance(v, Agg) and v.variant in ('TypecheckSuccess', 'TypecheckFail', 'RecursionLimit')):
            raise NotEncoded(f'{nm}: answer {v!r}')
        # the kinds of the children on this path are fixed by the path condition for every child that was visited
        visited = o.st.notes.get('visited', [])
        kind_terms = []
        for combo in itertools.product(range(len(BASE_KINDS)), repeat=nkids):
            kind_terms.append((combo, z3.And([K[i] == combo[i] for i in range(nkids)])))
        if v.variant == 'TypecheckSuccess':
            te = strip(ex, o.st, v.fields[0])
            # the typed expression of the node: built by the real ExprBuilder (struct Expr { expr_kind, source_loc, data }) or by the builder stub
            tyv = strip(ex, o.st, te.fields[0]) if isinstance(te, Agg) and te.name == '~typed' else (strip(ex, o.st, te.fields[2]) if isinstance(te, Agg) and len(te.fields) == 3 else None)
            rk = kind_of(ex, o.st, tyv.fields[0], names) if isinstance(tyv, Agg) and tyv.variant == 'Some' else None
            # an operand of the bottom type has no values: evaluation never reaches the operator, whatever the other operand is
            allowed = z3.Or([cond for combo, cond in kind_terms if 'Never' in [KINDS[j] for j in combo] or safe([KINDS[j] for j in combo])] or [F])
            unsound.append(z3.And(o.pc + [z3.Not(z3.And(z3.And(OKC), allowed))]))
            okty = z3.Or([cond for combo, cond in kind_terms if rk in result_kind([KINDS[j] for j in combo])] or [F])
            wrongty.append(z3.And(o.pc + [z3.Not(okty)]))
            accepts_expected.append(o)
        elif v.variant == 'TypecheckFail':
            # (operands all of the bottom type are rejected without a message: no expression that typechecks has type Never, so this is unreachable through the public API)
            silent.append(z3.And(o.pc + [z3.And(OKC), z3.Not(z3.And([k == KINDS.index('Never') for k in K])), z3.BoolVal(o.st.notes.get('errors', 0) == 0)]))
    role = f'validator/typecheck.rs: {fname} ({label})'
    why = f'the typing rule of {label} accepts operands on which evaluation raises a type error, or gives the node the wrong type'
    ctx.decide(f'{nm}/sound (strict mode): accepted only if every operand was accepted with a type the evaluator takes', pre + [STRICT, z3.Or(unsound) if unsound else F], ex=ex, sample={'paths': len(rets)}, on_sat=lambda m: battery(ctx, nm, role, why))
    ctx.decide(f'{nm}/the type of the node is the type of its values', pre + [z3.Or(wrongty) if wrongty else F], ex=ex, on_sat=lambda m: battery(ctx, nm, role, why))
    ctx.decide(f'{nm}/not silent: a rejection with all operands accepted has reported a type error', pre + [z3.Or(silent) if silent else F], ex=ex, on_sat=lambda m: battery(ctx, nm, role, 'a policy is rejected without a reported error'))
    accp = z3.Or([z3.And(o.pc) if o.pc else T for o in accepts_expected] or [F])
    ctx.decide(f'{nm}/accepted in strict mode => accepted in permissive mode', pre + [z3.substitute(accp, (STRICT, T)), z3.Not(z3.substitute(accp, (STRICT, F), (SEQ, z3.Bool('strict_equality_accepts_2'))))], ex=ex, on_sat=lambda m: battery(ctx, nm, role, 'a policy accepted in strict mode is rejected in permissive mode'))
    ctx.decide(f'{nm}/paths-cover', pre + [z3.Not(z3.Or([z3.And(o.pc) if o.pc else T for o in rets] or [F]))], ex=ex)
    ctx.decide(f'{nm}/witness-accepted', pre + [z3.Or([z3.And(o.pc) if o.pc else T for o in accepts_expected] or [F])], expect='sat', ex=ex)
    ctx.decide(f'{nm}/witness-rejected', pre + [z3.Or([z3.And(o.pc) if o.pc else T for o in rets if strip(ex, o.st, o.val).variant == 'TypecheckFail'] or [F])], expect='sat', ex=ex)
    return ex, K, OKC, STRICT, SEQ, rets


BOOLK = {'True', 'False', 'Bool'}


def un(op):
    return lambda k: Agg('variant', EK, 'UnaryApp', [Agg('variant', 'ast::ops::UnaryOp', op, []), k[0]])


def bi(op):
    return lambda k: Agg('variant', EK, 'BinaryApp', [Agg('variant', 'ast::ops::BinaryOp', op, []), k[0], k[1]])


def nodes():
    N = 'Never'
    isb = lambda x: x in BOOLK or x == N
    islong = lambda x: x in ('Long', N)
    isset = lambda x: x in ('Set', N)
    out = []
    out.append(('`!`', 'typecheck_unary', un('Not'), 1, lambda k: isb(k[0]), lambda k: {'False'} if k[0] == 'True' else ({'True'} if k[0] == 'False' else {'Bool'})))
    out.append(('unary `-`', 'typecheck_unary', un('Neg'), 1, lambda k: islong(k[0]), lambda k: {'Long'}))
    out.append(('`isEmpty`', 'typecheck_unary', un('IsEmpty'), 1, lambda k: isset(k[0]), lambda k: {'Bool'}))
    cmp_safe = lambda k: (islong(k[0]) and islong(k[1])) or (k[0] == 'ExtCmp' and k[1] in ('ExtCmp', N)) or (k[1] == 'ExtCmp' and k[0] == N)
    for op, sym in (('Less', '<'), ('LessEq', '<=')):
        out.append((f'`{sym}`', 'typecheck_binary', bi(op), 2, cmp_safe, lambda k: {'Bool'}))
    for op, sym in (('Add', '+'), ('Sub', 'binary `-`'), ('Mul', '*')):
        out.append((f'`{sym}`' if '`' not in sym else sym, 'typecheck_binary', bi(op), 2, lambda k: islong(k[0]) and islong(k[1]), lambda k: {'Long'}))
    out.append(('`contains`', 'typecheck_binary', bi('Contains'), 2, lambda k: isset(k[0]), lambda k: {'Bool'}))
    for op in ('ContainsAll', 'ContainsAny'):
        out.append((f'`{op[0].lower() + op[1:]}`', 'typecheck_binary', bi(op), 2, lambda k: isset(k[0]) and isset(k[1]), lambda k: {'Bool'}))
    return out


# ---------------------------------------------------------------------------------------------------------------- native battery

V_SCHEMA = ('entity Group; entity User in [Group] { n: Long, s: String, b: Bool, ls: Set<Long>, t: datetime, d: decimal, o?: Long, r: { x: Long, y?: String }, f: User, ip: ipaddr } tags Long; '
            'entity Doc { owner: User }; action view appliesTo { principal: [User], resource: [Doc], context: { n: Long, q?: String } };')
_U = {'__entity': {'type': 'User', 'id': 'u'}}
V_ENT = [{'uid': {'type': 'User', 'id': 'u'}, 'attrs': {'n': 1, 's': 'x', 'b': True, 'ls': [1], 't': {'__extn': {'fn': 'datetime', 'arg': '2024-01-01'}}, 'd': {'__extn': {'fn': 'decimal', 'arg': '1.5'}},
                                                        'r': {'x': 1}, 'f': _U, 'ip': {'__extn': {'fn': 'ip', 'arg': '127.0.0.1'}}}, 'parents': [{'type': 'Group', 'id': 'g'}], 'tags': {'k': 5}},
         {'uid': {'type': 'Doc', 'id': 'd'}, 'attrs': {'owner': _U}, 'parents': []}, {'uid': {'type': 'Group', 'id': 'g'}, 'attrs': {}, 'parents': []}]
V_ENT2 = [dict(V_ENT[0], attrs=dict(V_ENT[0]['attrs'], b=False))] + V_ENT[1:]          # the same store with principal.b false (the optional attribute `o` is absent in both)
V_ENT3 = V_ENT[1:]                                                               # the principal has no record in the store (allowed: evaluation may fail with a missing-entity error only)
ATOMS = {'Long': 'principal.n', 'String': 'principal.s', 'Bool': 'principal.b', 'Set': 'principal.ls', 'ExtCmp': 'principal.t', 'ExtOther': 'principal.d', 'Entity': 'principal', 'True': 'true', 'False': 'false'}


def battery_cases(expect=False):
    """conditions; with expect=True pairs (condition, must strict validation accept it?)"""
    out = []
    boolk = ('Bool', 'True', 'False')
    for k, a in ATOMS.items():
        out += [(f'!({a})', k in boolk), (f'-({a}) == 0', k == 'Long'), (f'({a}).isEmpty()', k == 'Set')]
    for ka, a in ATOMS.items():
        for kb, b in ATOMS.items():
            ll = ka == 'Long' and kb == 'Long'
            ss = ka == 'Set' and kb == 'Set'
            out += [(f'({a}) < ({b})', ll or (ka == kb == 'ExtCmp')), (f'({a}) + ({b}) == 0', ll), (f'({a}) * 2 == ({b})', ll), (f'({a}).contains({b})', ka == 'Set' and kb == 'Long'), (f'({a}).containsAll({b})', ss),
                    (f'({a}) <= ({b})', ll or (ka == kb == 'ExtCmp')), (f'({a}).containsAny({b})', ss), (f'({a}) - ({b}) == 0', ll)]
    # the singleton-boolean annotations decide which branches are typechecked at all: a wrong one lets an ill-typed branch through
    bad = '(1 + principal.s == 0)'
    out += [(f'if !(true) then true else {bad}', False), (f'if !(false) then true else {bad}', True), (f'if !(false) then {bad} else true', False), (f'if !(true) then {bad} else true', True),
            (f'!(false) || {bad}', True), (f'!(true) || {bad}', False), (f'!(true) && {bad}', True), (f'!(false) && {bad}', False),
            (f'if !(principal.b) then true else {bad}', False), (f'!(principal.b) || {bad}', False)]
    # capabilities: an access to the optional attribute `o` (absent in the stores) is accepted only under a guard that holds whenever the access is evaluated, and is accepted under
    # the documented guards (`has &&`, `if has then`); None = either verdict is fine, only soundness is checked
    acc = 'principal.o == 1'
    out += [(f'principal has o && {acc}', True), (f'principal has o || {acc}', False), (f'if principal has o then {acc} else true', True), (f'if principal has o then true else {acc}', False),
            (f'(principal has o || principal.b) && {acc}', False), (f'(principal has o && principal.b) && {acc}', True), (f'(principal.b && principal has o) && {acc}', True),
            (f'(if principal.b then principal has o else principal has o) && {acc}', None), (f'(if principal.b then principal has o else true) && {acc}', False),
            (f'(if principal.b then true else principal has o) && {acc}', False), (f'(if principal has o then principal.b else false) && {acc}', None), (f'(if principal has o then principal.b else true) && {acc}', False), (f'(if principal has o then true else principal.b) && {acc}', False),
            (f'(if principal has o then !principal.b else !principal.b) && {acc}', False), (f'if (if principal has o then principal.b else true) then {acc} else true', False),
            (f'!(principal has o) || {acc}', False), (f'(principal has o || principal has o) && {acc}', None), (f'(principal.b || principal has o) && {acc}', False),
            (f'(principal has o || false) && {acc}', None), (f'(false || principal has o) && {acc}', None), (f'(principal has o || true) && {acc}', False), (f'(true || principal has o) && {acc}', False),
            (f'(true && principal has o) && {acc}', None), (f'(principal has o && true) && {acc}', None), (f'principal.b && (principal has o && {acc})', True), (f'principal.b || (principal has o && {acc})', True),
            (f'if principal.b then (principal has o && {acc}) else {acc}', False), (acc, False), (f'principal.b && {acc}', False)]
    # attribute access and `has`: undeclared attributes, operands that are not entities / records, required attributes of an entity that may be missing from the store
    out += [('principal.zz == 1', False), ('principal has zz', True), ('principal.n has a', False), ('principal.s like "a*"', True), ('principal.n like "a*"', False), ('principal has n && principal.n == 1', True),
            ('context.n == 1', True), ('context has n && context.n == 1', True), ('context.m == 1', False), (f'if principal has zz then {bad} else true', None), (f'if principal has n then true else {bad}', False),
            (f'if context has n then true else {bad}', None), (f'principal has n || {bad}', False), ('principal.ls.contains(principal.o)', False), ('principal has o && principal.ls.contains(principal.o)', True),
            ('principal has o && principal has o', True), (f'(principal has o && principal has o) && {acc}', True), ('resource has zz', True), ('resource.zz', False)]
    out += MORE + MULTI
    return out if expect else [c for c, _ in out]


# ==, in, is, tags, records, set literals, extension calls, accesses through entity-valued attributes: not decided by the solver, sampled here only
MORE = [('principal.n == 1', True), ('principal.n == principal.s', False), ('principal == resource', None), ('principal.f == principal', True), ('principal.ls == [1]', True), ('principal.ls == []', None), ('1 == "a"', None),
        ('principal in Group::"g"', True), ('principal in resource', None), ('principal in [Group::"g"]', True), ('principal.n in Group::"g"', False), ('principal in principal.n', False), ('principal in principal.ls', False),
        ('principal is User', True), ('principal is Doc', None), ('principal.n is User', False), ('principal is User in Group::"g"', True),
        ('principal.hasTag("k") && principal.getTag("k") == 5', True), ('principal.getTag("k") == 5', False), ('principal.hasTag("k") || principal.getTag("k") == 5', False), ('resource.hasTag("k")', None),
        ('principal.hasTag("k") && principal.getTag("z") == 5', False), ('principal.hasTag(principal.s) && principal.getTag(principal.s) == 5', True), ('principal.hasTag("k") && principal.getTag("k") == "a"', False),
        ('principal.hasTag("z") && principal.getTag("z") == 5', True), ('principal.n.hasTag("k")', False), ('principal.hasTag(1)', False),
        ('principal.r.x == 1', True), ('principal.r.y == "a"', False), ('principal.r has y && principal.r.y == "a"', True), ('principal.r.z == 1', False), ('{a: 1}.a == 1', True), ('{a: 1}.b == 1', False), ('{a: 1} has b', None),
        ('context.q == "a"', False), ('context has q && context.q == "a"', True), ('principal.r has y && context.q == "a"', False),
        ('[1, 2].contains(principal.n)', True), ('[1, "a"].contains(1)', False), ('[principal.n].containsAll(principal.ls)', True), ('[principal.n, principal.s].isEmpty()', False),
        ('principal.ip.isLoopback()', True), ('principal.n.isLoopback()', False), ('ip("1.2.3.4").isLoopback()', True), ('ip("xx").isLoopback()', None), ('decimal("1.0").lessThan(principal.d)', True), ('principal.d.lessThan(principal.n)', False),
        ('principal.t.offset(duration("1h")) < principal.t', True), ('principal.t < principal.d', False), ('principal.ip.isInRange(principal.d)', False), ('principal.ip.isInRange(ip("10.0.0.0/8"))', True),
        ('principal.f.n == 1', True), ('principal.f.o == 1', False), ('principal.f has o && principal.f.o == 1', True), ('resource.owner.n == 1', True), ('resource.owner has o && principal.o == 1', False),
        ('principal has o && principal.f.o == 1', False), ('principal.f has o && principal.o == 1', False), ('resource.owner has o && resource.owner.o == 1', True), ('principal.f.f.f.n == 1', True),
        ('if principal is User then (1 + principal.s == 0) else true', False), ('if principal is Doc then (1 + principal.s == 0) else true', None), ('principal is Doc || (1 + principal.s == 0)', False),
        ('principal is User || (1 + principal.s == 0)', None), ('if 1 == 1 then (1 + principal.s == 0) else true', False), ('if 1 == 2 then true else (1 + principal.s == 0)', False), ('1 == 2 || (1 + principal.s == 0)', False),
        ('User::"u" == User::"u" && (1 + principal.s == 0)', False), ('if principal == resource then (1 + principal.s == 0) else true', None), ('if principal.f == principal then (1 + principal.s == 0) else true', False),
        ('if principal.hasTag("k") then (1 + principal.s == 0) else true', False), ('if resource.hasTag("k") then true else (1 + principal.s == 0)', False), ('if principal in Group::"g" then (1 + principal.s == 0) else true', False),
        ('if principal in resource then true else (1 + principal.s == 0)', False), ('if action in Action::"view" then (1 + principal.s == 0) else true', False), ('if action == Action::"view" then (1 + principal.s == 0) else true', False),
        ('if principal.ip.isLoopback() then (1 + principal.s == 0) else true', False), ('if principal has n then (1 + principal.s == 0) else true', False), ('if context has n then (1 + principal.s == 0) else true', False),
        ('if principal.b then principal.n else principal.s', False), ('(if principal.b then principal.n else 2) == 1', True), ('(if principal.b then principal.n else principal.s) == 1', False),
        ('(if principal.b then principal else principal.f).n == 1', True), ('(if principal.b then principal else resource) == principal', None), ('principal.n', False), ('principal.b', True)]


# several request environments: an error in ONE environment (here: the resource type Note has no `owner`) must be reported even if the policy has type False there
MULTI_SCHEMA = 'entity Group; entity User; entity Doc in [Group] { owner: User }; entity Note { title: String }; action look appliesTo { principal: [User], resource: [Doc, Note] };'
MULTI_ENTS = [{'uid': {'type': 'User', 'id': 'u'}, 'attrs': {}, 'parents': []}, {'uid': {'type': 'Note', 'id': 'n'}, 'attrs': {'title': 't'}, 'parents': []}, {'uid': {'type': 'Group', 'id': 'g'}, 'attrs': {}, 'parents': []}]
MULTI = [({'policy': 'permit(principal, action == Action::"look", resource) when { %s };' % c, 'action': 'Action::"look"', 'resource': 'Note::"n"', 'schema': MULTI_SCHEMA, 'entities': MULTI_ENTS}, e) for c, e in [
    ('resource.owner == principal && resource in Group::"g"', False), ('resource.owner == principal && resource is Doc', False), ('resource is Doc && resource.owner == principal', True), ('resource.owner == principal', False),
    ('resource has owner && resource.owner == principal', True), ('resource.owner == principal && false', False), ('if resource is Doc then resource.owner == principal else resource.title == "t"', True),
    ('if resource is Note then resource.owner == principal else true', False), ('resource.title == "t" || resource is Doc', False), ('resource is Note && resource.title == "t"', True)]]


def battery(ctx, name, role, why):
    """every operator applied to operands of every kind: if strict validation accepts the policy, evaluating it raises no type error (and it is accepted whenever the operand kinds are the expected ones)"""
    cache = ctx.__dict__.setdefault('_c03_battery', {})
    if 'r' not in cache:
        cache['r'] = None
        n = 0
        for (cond, expect), ents in itertools.product(battery_cases(expect=True), (V_ENT, V_ENT2, V_ENT3)):
            if cache['r']:
                break
            q = {'op': 'validate_eval', 'schema': V_SCHEMA, 'policy': 'permit(principal, action, resource) when { %s };' % cond, 'entities': ents, 'principal': 'User::"u"', 'action': 'Action::"view"', 'resource': 'Doc::"d"', 'context': {'n': 1}}
            if isinstance(cond, dict):
                q.update(cond)
                q['context'] = {}
                cond = cond['policy']
            a = ctx.native.ask(q)
            if 'valid' not in a:
                return ctx.mismatch(name, f'validate_eval probe `{cond}`: {str(a)[:300]}')
            n += 1
            if not a['valid'] and not a.get('errors') and not a.get('parse_error'):
                cache['r'] = (f'`{cond}` is rejected by strict validation without any reported error', q)
            elif expect is not None and expect != a['valid']:
                cache['r'] = (f'`{cond}`: strict validation ' + ('rejects a well-typed expression: ' + '; '.join(a.get('errors', []))[:300] if expect else 'accepts an expression that is not well typed (operand of the wrong type, or an unguarded access to an optional attribute)'), q)
            elif a['valid'] and not a.get('permissive'):
                cache['r'] = (f'`{cond}` passes strict validation but not permissive validation', q)
            elif a['valid'] and a.get('type_error'):
                cache['r'] = (f'`{cond}` passes strict validation but evaluating it raises a type error: {a.get("error")}', q)
            cache['valid'] = cache.get('valid', 0) + (1 if a['valid'] else 0)
        cache['n'] = n
    if cache['r']:
        return ctx.violation(name, role, f'{why}; natively: {cache["r"][0]}', cache['r'][1])
    if cache.get('valid', 0) < 12:
        return ctx.mismatch(name, f'only {cache.get("valid")} of the battery policies pass strict validation (vacuous battery)')
    return ('unreplayed', f'{why}; but in the {cache.get("n")} operator / operand-kind combinations of the battery no validated policy raises a type error')


def families(ctx):
    from . import c03_control, c03_attr, c03_driver
    return ([(f'typing rule of {label}', lambda label=label, fname=fname, build=build, n=n, safe=safe, rk=rk: operator_node(ctx, label, fname, build, n, safe, rk)) for label, fname, build, n, safe, rk in nodes()]
            + c03_control.families(ctx, battery) + c03_attr.families(ctx, battery) + c03_driver.families(ctx, battery))


def run(ctx):
    ctx.run_families(families(ctx))
    ctx.guarded('native battery', lambda: battery(ctx, 'native battery', 'strict validation vs evaluation on operator applications', 'native validate-then-evaluate battery'))
    ctx.bounds += ['operators: !, unary -, isEmpty, <, <=, +, binary -, *, contains, containsAll, containsAny; each operand accepted or rejected by its own typecheck with a type of one of the kinds ' + ', '.join(KINDS)
                   + ' (sets are Set<Long>; entity / record types are opaque; two extension types, one with comparison operators); strict and permissive mode',
                   'attribute access, has, like, is, in (right operand also a set of entities), ==, hasTag, getTag: the operand(s) as above; what the schema says is free (attribute undeclared or declared with a type of five kinds, required or optional; may_have_attr; tag types empty or not and their '
                   'least upper bound; entity-type membership and disjointness); the capability of the access is a prior fact or not; operands of == are literals or not, equal or not',
                   'short-circuiting nodes &&, ||, if: every child accepted or rejected with a type of one of these kinds (branches of `if`: Never, True, Bool, Long; thorough: all) and an arbitrary capability set, '
                   'arbitrary prior capability; capability sets pointwise (one arbitrary `has` fact); the least upper bound of the branch types exists or not (free)',
                   f'native battery: {len(battery_cases())} expressions (operator applications over operands of 9 kinds, singleton-boolean short circuits, guarded / unguarded accesses to an optional attribute) x 2 entity stores: '
                   'strict validation verdict, strict => permissive, then evaluation on a conformant request']
    ctx.assumptions += ['the recursive typecheck of an operand returns an answer whose type annotation describes the values of the operand and whose capability holds whenever the operand evaluates to true '
                        '(induction hypothesis of the soundness proof); when the evaluator raises a type error on an operator and which operands it evaluates is decided by C02',
                        'Type::is_subtype, expect_type, TypecheckAnswer::then_typecheck / map_capability and the decision code are executed from the MIR; the typed-expression builder keeps the annotation it is given; '
                        'enforce_strict_equality is a kind-level stub (types of different kinds are rejected, within a kind either answer); CapabilitySet::{new,union,intersect} are the pointwise set operations; '
                        'least_upper_bound_or_error answers freely',
                        'NOT decided - most of C03: the action-hierarchy routes of `in` (type_of_action_in_*), whether an entity type can be a descendant of another (free answer), record and set literals, extension calls, Type::least_upper_bound, the schema lookups (free answers here), request environments, and the composition into whole-policy soundness']
    return ctx.finish('Solver-decided typing rules of 22 expression node kinds (eleven operators, &&, ||, if, attribute access, has, like, is, in, ==, hasTag, getTag) and of the fold over request environments, typecheck / typecheck_unary / typecheck_binary executed from the MIR: a node is accepted only if every operand that '
                      'can be evaluated was accepted with a type on which the evaluator raises no type error, children are typechecked only under `has` facts that hold when they are evaluated, the facts passed on hold when the node is true, '
                      'the node gets a type containing its values, a rejection with accepted operands is reported, and well-typed operands are accepted. A narrow slice of strict-validation soundness.')
