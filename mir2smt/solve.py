"""Deciding step: every query goes to z3 (python binding, z3 5.x) and to cvc5 (CLI, SMT-LIB text exported from the
same assertion set); in the thorough tier additionally to the system z3 4.8.12 CLI.  A query is DISCHARGED only if at
least one solver answers unsat and none answers sat; `sat` gives a model (counterexample candidate, to be replayed);
anything else (unknown, timeout, an `(error` line) is INCONCLUSIVE."""
import subprocess, time, tempfile, os, re
import z3


class Verdict:
    def __init__(s, status, model, answers, times, nvars):
        s.status, s.model, s.answers, s.times, s.nvars = status, model, answers, times, nvars

    def __repr__(s):
        return f'Verdict({s.status}, {s.answers}, {dict((k, round(v, 3)) for k, v in s.times.items())})'


class Solvers:
    def __init__(self, tier='quick'):
        self.tier = tier
        self.timeout_s = 30 if tier == 'quick' else 600
        self.use_cvc5 = True
        self.use_z3_old = tier == 'thorough'
        self.queries = 0
        self.time = {'z3': 0.0, 'cvc5': 0.0, 'z3-4.8.12': 0.0}
        self.answers = {'z3': {}, 'cvc5': {}, 'z3-4.8.12': {}}

    def _cli(self, name, cmd, smt2):
        t = time.time()
        try:
            r = subprocess.run(cmd, input=smt2, capture_output=True, text=True, timeout=self.timeout_s + 5)
            out = (r.stdout + r.stderr).strip()
        except subprocess.TimeoutExpired:
            out = 'timeout'
        dt = time.time() - t
        first = out.split('\n')[0].strip() if out else 'empty'
        if '(error' in out or 'rror' in out.split('\n')[0]:
            ans = 'error'
        elif first in ('sat', 'unsat', 'unknown'):
            ans = first
        elif 'timeout' in out or 'interrupted' in out:
            ans = 'timeout'
        else:
            ans = 'error'
        self.time[name] += dt
        self.answers[name][ans] = self.answers[name].get(ans, 0) + 1
        return ans, dt

    def check(self, formulas, need_model=True, witness=False, quick_pass=False):
        self.queries += 1
        s = z3.Solver()
        s.set('timeout', (5 if quick_pass else self.timeout_s) * 1000)
        for f in formulas:
            s.add(f)
        answers, times = {}, {}
        t = time.time()
        r = s.check()
        times['z3'] = time.time() - t
        self.time['z3'] += times['z3']
        answers['z3'] = str(r)
        self.answers['z3'][str(r)] = self.answers['z3'].get(str(r), 0) + 1
        model = s.model() if r == z3.sat else None
        smt2 = None
        if quick_pass and answers['z3'] != 'unsat':
            return Verdict('unknown', None, answers, times, len(formulas))
        if witness and answers['z3'] == 'sat':
            # a reachability witness only needs one solver to exhibit a model
            return Verdict('sat', model, answers, times, len(formulas))
        if self.use_cvc5 or self.use_z3_old:
            smt2 = '(set-logic ALL)\n' + s.to_smt2()
        if self.use_cvc5:
            answers['cvc5'], times['cvc5'] = self._cli('cvc5', ['cvc5', '--lang', 'smt2', f'--tlimit={self.timeout_s * 1000}'], smt2)
        if self.use_z3_old:
            answers['z3-4.8.12'], times['z3-4.8.12'] = self._cli('z3-4.8.12', ['/usr/bin/z3', '-in', f'-T:{self.timeout_s}'], smt2)
        vals = set(answers.values())
        if 'sat' in vals and 'unsat' in vals:
            status = 'disagree'
        elif 'sat' in vals:
            status = 'sat'
        elif 'unsat' in vals:
            status = 'unsat'
            if self.tier == 'thorough' and answers.get('cvc5') not in ('unsat',) and answers['z3'] != 'unsat':
                status = 'unknown'
        else:
            status = 'unknown'
        return Verdict(status, model, answers, times, len(formulas))

    def summary(self):
        return {'queries': self.queries, 'solver_time_s': {k: round(v, 3) for k, v in self.time.items() if v},
                'answers': {k: v for k, v in self.answers.items() if v}, 'timeout_s_per_query': self.timeout_s}
