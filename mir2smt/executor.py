"""Forward symbolic executor over parsed MIR (engine M).

Values are immutable Python objects; a machine state is a call stack plus one
environment (dict) per frame; forking copies the dicts.  Integers are z3 Int
terms (Int mode: mathematical integers with range invariants, explicit
wrapping, quotient/remainder by fresh variables + the defining lemma) or z3
bit-vectors (BV mode).  Everything the executor does not understand raises
NotEncoded - an obligation that hits it is reported as not encoded, never as
discharged.
"""
import re, itertools, os
import z3
from .mirparse import INT_TY, split_top, match_paren, Func


class NotEncoded(Exception):
    pass


def rng(ty):
    w, sg = INT_TY[ty]
    return (-(1 << (w - 1)), (1 << (w - 1)) - 1) if sg else (0, (1 << w) - 1)


# ------------------------------------------------------------------ values

class IntV:
    __slots__ = ('t', 'ty')

    def __init__(s, t, ty):
        s.t, s.ty = t, ty

    def __repr__(s):
        return f'{s.t}:{s.ty}'


class BoolV:
    __slots__ = ('t',)

    def __init__(s, t):
        s.t = t

    def __repr__(s):
        return f'bool({s.t})'


class Agg:
    """tuple / struct / enum variant / array / closure with concrete shape"""
    __slots__ = ('kind', 'name', 'variant', 'fields', 'fnames')

    def __init__(s, kind, name, variant, fields, fnames=None):
        s.kind, s.name, s.variant, s.fields, s.fnames = kind, name, variant, tuple(fields), fnames

    def with_field(s, i, v):
        f = list(s.fields)
        while len(f) <= i:
            f.append(None)
        f[i] = v
        return Agg(s.kind, s.name, s.variant, f, s.fnames)

    def field(s, name):
        return s.fields[s.fnames.index(name)]

    def __repr__(s):
        nm = s.variant or s.name or s.kind
        return f'{nm}{list(s.fields)}' if s.fields else f'{nm}'


UNIT = Agg('tuple', None, None, ())


def variant(name, *fields, enum=None):
    return Agg('variant', enum, name, fields)


class Opaque:
    """a value about which nothing is known except what stubs / field reads say; `over` holds written fields"""
    __slots__ = ('id', 'ty', 'what', 'over')
    _n = itertools.count(1)

    def __init__(s, ty, what=None, id=None, over=None):
        s.id = id if id is not None else next(Opaque._n)
        s.ty, s.what, s.over = ty, what or ty, over or {}

    def with_over(s, key, val):
        o = dict(s.over)
        o[key] = val
        return Opaque(s.ty, s.what, s.id, o)

    def __repr__(s):
        w = s.what if len(s.what) < 48 else s.what[:45] + '...'
        return f'<{w}#{s.id}>'


class Ref:
    __slots__ = ('fid', 'place')

    def __init__(s, fid, place):
        s.fid, s.place = fid, place

    def __repr__(s):
        return f'&{s.fid}:{fmt_place(s.place)}'


class SymV:
    """a value of an uninterpreted sort (policy ids, abstract policies / templates of the abstract-map model)"""
    __slots__ = ('sort', 't')

    def __init__(s, sort, t):
        s.sort, s.t = sort, t

    def __repr__(s):
        return f'{s.sort}({s.t})'


class AMap:
    """abstract map: presence array + value array over an uninterpreted key sort; `vkind` says how values are wrapped"""
    __slots__ = ('name', 'pres', 'val', 'vkind')

    def __init__(s, name, pres, val, vkind):
        s.name, s.pres, s.val, s.vkind = name, pres, val, vkind

    def __repr__(s):
        return f'AMap({s.name})'


class ASet:
    __slots__ = ('mem',)

    def __init__(s, mem):
        s.mem = mem

    def __repr__(s):
        return 'ASet'


class StrV:
    __slots__ = ('s',)

    def __init__(s, lit):
        s.s = lit

    def __repr__(s):
        return 'str' + s.s


class FnItem:
    __slots__ = ('path',)

    def __init__(s, path):
        s.path = path

    def __repr__(s):
        return f'fn[{s.path}]'


def fmt_place(p):
    k = p[0]
    if k == 'local':
        return p[1]
    if k == 'deref':
        return f'(*{fmt_place(p[1])})'
    if k == 'field':
        return f'{fmt_place(p[1])}.{p[2]}'
    if k == 'downcast':
        return f'({fmt_place(p[1])} as {p[2]})'
    return f'{fmt_place(p[1])}[..]'


def base_type(ty):
    """last path segment of a type, generics removed:  std::option::Option<i64> -> Option"""
    ty = ty.strip()
    while ty.startswith('&'):
        ty = re.sub(r"^&(?:'\w+ )?(?:mut )?", '', ty)
    i = ty.find('<')
    head = ty if i <= 0 else ty[:i]
    head = head.rstrip(':')
    return head.split('::')[-1].strip()


def type_args(ty):
    i = ty.find('<')
    if i == -1 or not ty.endswith('>'):
        return []
    return split_top(ty[i + 1:-1])


STD_ENUMS = {
    'Option': ['None', 'Some'], 'Result': ['Ok', 'Err'], 'ControlFlow': ['Continue', 'Break'],
    'Either': ['Left', 'Right'], 'IpAddr': ['V4', 'V6'], 'Cow': ['Borrowed', 'Owned'],
    'Entry': ['Occupied', 'Vacant'],            # std::collections::hash_map::Entry, linked_hash_map::Entry
    'BTreeEntry': ['Vacant', 'Occupied'],       # std::collections::btree_map::Entry (declared in this order)
    'JsonValue': ['Null', 'Bool', 'Number', 'String', 'Array', 'Object'],       # serde_json::Value (harnesses name it JsonValue: `Value` is also cedar's value type)
}
STD_ENUM_DISC = {'Ordering': {'Less': -1, 'Equal': 0, 'Greater': 1}}


class Frame:
    __slots__ = ('func', 'fid', 'bb', 'dest', 'ret_bb', 'on_return', 'subst')

    def __init__(s, func, fid, bb, dest=None, ret_bb=None, on_return=None, subst=None):
        s.func, s.fid, s.bb, s.dest, s.ret_bb, s.on_return, s.subst = func, fid, bb, dest, ret_bb, on_return, subst

    def copy(s):
        return Frame(s.func, s.fid, s.bb, s.dest, s.ret_bb, s.on_return, s.subst)


def apply_subst(text, subst):
    if not subst:
        return text
    for g, t in subst.items():
        text = re.sub(r'(?<![\w:])' + re.escape(g) + r'(?![\w])', t, text)
    return text


class State:
    __slots__ = ('frames', 'stack', 'pc', 'log', 'notes')

    def fork(s):
        n = State()
        n.frames = {k: dict(v) for k, v in s.frames.items()}
        n.stack = [f.copy() for f in s.stack]
        n.pc = list(s.pc)
        n.log = list(s.log)
        # notes are per path: containers are copied one level deep so that appending on one path does not leak into its siblings
        n.notes = {k: (list(v) if isinstance(v, list) else dict(v) if isinstance(v, dict) else v) for k, v in s.notes.items()}
        return n


class Outcome:
    __slots__ = ('kind', 'pc', 'val', 'log', 'st', 'msg')

    def __init__(s, kind, st, val=None, msg=''):
        s.kind, s.pc, s.val, s.log, s.st, s.msg = kind, list(st.pc), val, list(st.log), st, msg

    def __repr__(s):
        return f'Outcome({s.kind}, {s.val!r}, {s.msg[:60]})'


class Call:
    """a logged call"""
    __slots__ = ('callee', 'args', 'res', 'tag')

    def __init__(s, callee, args, res, tag=None):
        s.callee, s.args, s.res, s.tag = callee, args, res, tag

    def __repr__(s):
        return f'{s.tag or s.callee}({", ".join(map(repr, s.args))}) = {s.res!r}'


class Enter:
    """model result: run `func` with `args`, then map the returned value through `then` (value -> value | [alts])"""

    def __init__(s, func, args, then=None, subst=None):
        s.func, s.args, s.then, s.subst = func, args, then, subst


class Diverge:
    def __init__(s, msg):
        s.msg = msg


class HavocCall:
    """result of a call nothing is known about (only when Exec.havoc_unknown is set): an arbitrary value of the destination type"""

    def __init__(s, callee):
        s.callee = callee


class Exec:
    def __init__(self, prog, enums=None, mode='int', max_paths=4000, max_steps=400000, prune=True):
        self.prog = prog
        self.enums = enums            # EnumIndex (source-derived) or None
        self.mode = mode
        self.stubs = []               # list of (compiled regex, fn, tag)
        self.models = []              # list of (compiled regex, fn)
        self.invariants = []          # always-true facts about fresh variables (ranges, division lemmas)
        self.memo = {}
        self.fresh_n = itertools.count(1)
        self.fid_n = itertools.count(1)
        self.heap_n = itertools.count(1)
        self.max_paths, self.max_steps = max_paths, max_steps
        self.prune = prune
        self.stats = {'steps': 0, 'forks': 0, 'pruned': 0, 'inlined': set(), 'modelled': set(), 'stubbed': set()}
        self._prune_solver = None
        self.havoc_unknown = False
        self.const_hooks = []
        self.from_wrappers = set()    # target types whose derive-generated From impls are modelled as wrappers
        self.no_inline = []           # regexes of callees that must be stubbed / modelled, never inlined
        from . import models
        models.install(self)

    # -------------------------------------------------------------- fresh values
    def fresh_int(self, ty, hint='v'):
        n = next(self.fresh_n)
        lo, hi = rng(ty)
        if self.mode == 'bv':
            v = z3.BitVec(f'{hint}!{n}', INT_TY[ty][0])
            return IntV(v, ty)
        v = z3.Int(f'{hint}!{n}')
        self.invariants.append(z3.And(v >= lo, v <= hi))
        return IntV(v, ty)

    def fresh_bool(self, hint='b'):
        return BoolV(z3.Bool(f'{hint}!{next(self.fresh_n)}'))

    def const_int(self, n, ty):
        if self.mode == 'bv':
            return IntV(z3.BitVecVal(n, INT_TY[ty][0]), ty)
        return IntV(z3.IntVal(n), ty)

    def fresh(self, ty, hint='h', st=None):
        ty = ty.strip()
        if ty in INT_TY:
            return self.fresh_int(ty, hint)
        if ty == 'bool':
            return self.fresh_bool(hint)
        if ty == 'char':
            v = self.fresh_int('u32', hint)
            self.invariants.append(z3.And(v.t <= 0x10FFFF, z3.Or(v.t < 0xD800, v.t > 0xDFFF)))
            return IntV(v.t, 'char')
        if ty == '()':
            return UNIT
        if ty.startswith('{closure@') and ty.endswith('}'):
            return Agg('closure', ty, None, [])      # a capture-less (zero-sized) closure is never assigned in MIR
        if ty == '!':
            return Opaque('!', hint)
        if ty.startswith('(') and ty.endswith(')'):
            return Agg('tuple', None, None, [self.fresh(t, hint, st) for t in split_top(ty[1:-1])])
        m = re.match(r"^&(?:'\w+ )?(mut )?(.*)$", ty)
        if m:
            return self.new_cell(st, self.fresh(m.group(2), hint, st), hint)
        m = re.match(r'^\[(.*); (\d+)\]$', ty)
        if m and int(m.group(2)) <= 16:
            return Agg('array', None, None, [self.fresh(m.group(1), hint, st) for _ in range(int(m.group(2)))])
        return Opaque(ty, hint)

    def new_cell(self, st, val, hint='cell'):
        name = f'h{next(self.heap_n)}_{hint}'
        if st is not None:
            st.frames[0][name] = val
        else:
            self.pending_cells[name] = val
        return Ref(0, ('local', name))

    # -------------------------------------------------------------- enum tables
    def variants_of(self, ty):
        b = base_type(ty)
        if b in STD_ENUMS:
            return {n: i for i, n in enumerate(STD_ENUMS[b])}
        if b in STD_ENUM_DISC:
            return STD_ENUM_DISC[b]
        if self.enums is not None:
            r = self.enums.lookup(ty)
            if r is not None:
                return r
        return None

    def variant_index(self, agg):
        if agg.name is not None:
            tbl = self.variants_of(agg.name)
            if tbl is not None and agg.variant in tbl:
                return tbl[agg.variant]
        for tbl in STD_ENUMS.values():
            if agg.variant in tbl:
                return tbl.index(agg.variant)
        raise NotEncoded(f'variant index of {agg.name}::{agg.variant}')

    def disc_term(self, op):
        """symbolic discriminant of an opaque enum value"""
        key = ('disc', op.id)
        if key not in self.memo:
            v = z3.Int(f'disc!{op.id}')
            tbl = self.variants_of(op.ty)
            if tbl is not None:
                vals = sorted(tbl.values())
                if vals == list(range(len(vals))):
                    self.invariants.append(z3.And(v >= 0, v < len(vals)))
                else:
                    self.invariants.append(z3.Or([v == x for x in vals]))
            else:
                self.invariants.append(v >= 0)
            self.memo[key] = v
        return self.memo[key]

    def is_variant(self, val, name):
        """z3 condition: `val` is variant `name`"""
        if isinstance(val, Agg):
            return z3.BoolVal(val.variant == name)
        if isinstance(val, Opaque):
            tbl = self.variants_of(val.ty)
            if tbl is None or name not in tbl:
                raise NotEncoded(f'no variant table for {val.ty} / {name}')
            return self.disc_term(val) == tbl[name]
        raise NotEncoded(f'is_variant on {val!r}')

    def payload(self, val, variant_name, idx, ty, st=None):
        """field idx of variant `variant_name` of `val` (the caller is responsible for being on a path where it is that variant)"""
        if isinstance(val, Agg):
            return val.fields[idx]
        return self.opaque_field(val, variant_name, idx, ty, st)

    def opaque_field(self, op, variant_name, idx, ty, st=None):
        key = (variant_name, idx)
        if key in op.over:
            return op.over[key]
        mk = ('field', op.id, variant_name, idx)
        if mk not in self.memo:
            hint = f'{base_type(op.what) if len(op.what) > 24 else op.what}.{variant_name + "." if variant_name else ""}{idx}'
            hint = re.sub(r'[^\w\.]', '_', hint)
            self.pending_cells = {}
            v = self.fresh(ty, hint, None)
            self.memo[mk] = (v, self.pending_cells)
            self.pending_cells = {}
        v, cells = self.memo[mk]
        if st is not None:
            for k, c in cells.items():
                st.frames[0].setdefault(k, c)
        return v

    # -------------------------------------------------------------- places
    def read(self, st, fid, p):
        k = p[0]
        if k == 'local':
            env = st.frames[fid]
            if p[1] not in env:
                fr = self._frame(st, fid)
                if fr is None or p[1] not in fr.func.locals:
                    raise NotEncoded(f'read of unknown local {p[1]} in frame {fid}')
                env[p[1]] = self.fresh(apply_subst(fr.func.locals[p[1]], fr.subst), f'{self._dbg(fr.func, p[1])}', st)
            return env[p[1]]
        if k == 'deref':
            r = self.read(st, fid, p[1])
            return self.deref(st, r)
        if k == 'field':
            b = self.read(st, fid, p[1]) if p[1][0] != 'downcast' else None
            if p[1][0] == 'downcast':
                base = self.read(st, fid, p[1][1])
                vname = p[1][2]
                if isinstance(base, Agg):
                    if base.variant is not None and base.variant != vname:
                        raise NotEncoded(f'downcast of {base!r} as {vname}')
                    return self._fld(base, p[2], p[3], st)
                if isinstance(base, Opaque):
                    return self.opaque_field(base, vname, p[2], p[3], st)
                raise NotEncoded(f'downcast field on {base!r}')
            if isinstance(b, Agg) and b.kind == 'struct' and b.name == 'Box' and len(b.fields) == 1 and p[2] == 0 and 'Unique<' in str(p[3]) \
                    and not (isinstance(b.fields[0], Agg) and b.fields[0].name == 'Unique'):
                # moving out of a Box (`*b`): MIR reads the pointer field `(b.0: Unique<T>).0: NonNull<T>` and transmutes it; our Box is the boxed value itself
                f2, p2 = self.resolve_place(st, fid, p[1])
                return Agg('struct', 'Unique', None, [Agg('struct', 'NonNull', None, [Ref(f2, ('field', p2, 0, '?'))])])
            if isinstance(b, Agg):
                return self._fld(b, p[2], p[3], st)
            if isinstance(b, Opaque):
                return self.opaque_field(b, None, p[2], p[3], st)
            raise NotEncoded(f'field {p[2]} of {b!r}')
        if k == 'downcast':
            return self.read(st, fid, p[1])
        if k == 'mapelem':
            m = self.read(st, fid, p[1])
            if not isinstance(m, AMap):
                raise NotEncoded(f'mapelem of {m!r}')
            v = z3.Select(m.val, p[2])
            return ASet(v) if m.vkind == 'set' else SymV(m.vkind, v)
        if k == 'cindex':
            b = self.read(st, fid, p[1])
            if isinstance(b, Agg) and (b.kind == 'array' or b.name == '~vec'):
                return b.fields[-p[2]] if p[3] else b.fields[p[2]]
            raise NotEncoded(f'const index into {b!r}')
        if k == 'subslice':
            # `&s[a..]` / `&s[a..len-b]` of a slice pattern: the sub-sequence (read-only view)
            b = self.read(st, fid, p[1])
            if isinstance(b, Agg) and (b.kind == 'array' or b.name == '~vec'):
                a, e = p[2], p[3]
                if a + (e if p[4] else 0) > len(b.fields):
                    raise NotEncoded(f'subslice [{a}:{e}] of a sequence of {len(b.fields)}')
                return Agg('struct', '~vec', None, list(b.fields[a:len(b.fields) - e] if p[4] or e == 0 else b.fields[a:e]))
            raise NotEncoded(f'subslice of {b!r}')
        if k == 'index':
            b = self.read(st, fid, p[1])
            i = self.read(st, fid, ('local', p[2]))
            if isinstance(b, Agg) and (b.kind == 'array' or b.name == '~vec') and isinstance(i, IntV):
                c = self.concrete(i.t)
                if c is not None:
                    return b.fields[c]
            raise NotEncoded(f'index {i!r} into {b!r}')
        raise NotEncoded(f'place {p}')

    def _fld(self, agg, idx, ty, st):
        if idx < len(agg.fields) and agg.fields[idx] is not None:
            return agg.fields[idx]
        raise NotEncoded(f'field {idx} of {agg!r} is not initialised')

    def deref(self, st, r):
        if isinstance(r, Ref):
            return self.read(st, r.fid, r.place)
        if isinstance(r, Opaque):
            # deref of an opaque reference / Box: a memoised heap cell
            mk = ('deref', r.id)
            if mk not in self.memo:
                inner = type_args(r.ty)[0] if type_args(r.ty) else re.sub(r"^&(?:'\w+ )?(?:mut )?", '', r.ty)
                self.memo[mk] = f'h{next(self.heap_n)}_deref{r.id}'
                self.memo[('dereft', r.id)] = inner
            name = self.memo[mk]
            if name not in st.frames[0]:
                # the referent is created once (stable identity across paths); writes through the cell stay per-state
                vk = ('derefv', r.id)
                if vk not in self.memo:
                    self.memo[vk] = self.fresh(self.memo[('dereft', r.id)], f'deref{r.id}', st)
                st.frames[0][name] = self.memo[vk]
            return st.frames[0][name]
        raise NotEncoded(f'deref of {r!r}')

    def deref_target(self, st, r):
        """(fid, place) a reference value points to"""
        if isinstance(r, Ref):
            return r.fid, r.place
        if isinstance(r, Opaque):
            self.deref(st, r)
            return 0, ('local', self.memo[('deref', r.id)])
        raise NotEncoded(f'deref target of {r!r}')

    def write(self, st, fid, p, val):
        k = p[0]
        if k == 'local':
            st.frames[fid][p[1]] = val
            return
        if k == 'deref':
            r = self.read(st, fid, p[1])
            tf, tp = self.deref_target(st, r)
            self.write(st, tf, tp, val)
            return
        if k == 'field':
            inner = p[1]
            vname = None
            if inner[0] == 'downcast':
                vname, inner = inner[2], inner[1]
            try:
                b = self.read(st, fid, inner)
            except NotEncoded:
                b = None
            if b is None:
                b = Agg('struct', None, vname, [])
            if isinstance(b, Agg):
                nb = b.with_field(p[2], val)
            elif isinstance(b, Opaque):
                nb = b.with_over((vname, p[2]), val)
            else:
                raise NotEncoded(f'write field of {b!r}')
            self.write(st, fid, inner, nb)
            return
        if k == 'downcast':
            self.write(st, fid, p[1], val)
            return
        if k == 'mapelem':
            m = self.read(st, fid, p[1])
            t = val.mem if isinstance(val, ASet) else val.t
            self.write(st, fid, p[1], AMap(m.name, m.pres, z3.Store(m.val, p[2], t), m.vkind))
            return
        raise NotEncoded(f'write to place {p}')

    def _frame(self, st, fid):
        for fr in st.stack:
            if fr.fid == fid:
                return fr
        return None

    def _dbg(self, func, local):
        for n, l in func.debug.items():
            if l == local:
                return n
        return local.strip('_') and f'l{local[1:]}'

    # -------------------------------------------------------------- constants
    def constant(self, st, tok):
        tok = tok.strip()
        for h in self.const_hooks:
            r = h(tok)
            if r is not None:
                return r
        m = re.match(r'^(-?\d+)_(\w+)$', tok)
        if m and m.group(2) in INT_TY:
            return self.const_int(int(m.group(1)), m.group(2))
        if tok == 'true' or tok == 'false':
            return BoolV(z3.BoolVal(tok == 'true'))
        m = re.match(r'^((?:std|core)::(?:result::Result|option::Option)::<.*>)::(Ok|Err|Some)\((.*)\)$', tok)
        if m:
            # a constant std enum value with a constant payload: `Result::<Infallible, fmt::Error>::Err(std::fmt::Error)`
            inner = m.group(3).strip()
            pay = Agg('struct', inner, None, []) if re.match(r'^[\w:]+$', inner) and not re.match(r'^-?\d', inner) and inner not in ('true', 'false') else self.constant(st, inner)
            return Agg('variant', m.group(1), m.group(2), [pay])
        m = re.match(r'^(?:(?:core|std)::num::<impl )?(\w+)>?::(MIN|MAX|BITS)$', tok)
        if m and m.group(1) in INT_TY:
            lo, hi = rng(m.group(1))
            if m.group(2) == 'BITS':
                return self.const_int(INT_TY[m.group(1)][0], 'u32')
            return self.const_int(lo if m.group(2) == 'MIN' else hi, m.group(1))
        if tok.startswith('"') or tok.startswith('b"'):
            return StrV(tok)
        m = re.match(r"^'(.*)'$", tok)
        if m:
            c = m.group(1)
            esc = {'\\n': '\n', '\\t': '\t', '\\\\': '\\', "\\'": "'", '\\0': '\0', '\\r': '\r'}
            c = esc.get(c, c)
            mu = re.match(r'^\\u\{([0-9a-fA-F]+)\}$', c)
            cp = int(mu.group(1), 16) if mu else (ord(c) if len(c) == 1 else None)
            if cp is None:
                raise NotEncoded('char const ' + tok)
            return IntV(self.const_int(cp, 'u32').t, 'char')
        if tok == '()':
            return UNIT
        if tok.startswith('ZeroSized: '):
            ty = tok[len('ZeroSized: '):]
            if ty.startswith('{closure@'):
                return Agg('closure', ty, None, [])
            return FnItem(ty)
        m = re.match(r'^(.*)::(\w+)$', tok)
        if m and re.match(r'^[A-Z]', m.group(2)) and base_type(m.group(1)) in STD_ENUMS and m.group(2) in STD_ENUMS[base_type(m.group(1))]:
            return Agg('variant', m.group(1), m.group(2), [])
        mp = re.match(r'^(.*)::([\w#{}]+)::promoted\[(\d+)\]$', tok)
        if mp:
            suffix = f'::{mp.group(2)}::promoted[{mp.group(3)}]'
            cands = [k for k in self.prog._const_bodies if k.endswith(suffix) or k == suffix[2:]]
            if len(cands) > 1:
                ty = base_type(mp.group(1))
                keep = []
                for k in cands:
                    mi = re.search(r'<impl at ([^>]*?\.rs):(\d+):(\d+): (\d+):(\d+)>', k)
                    hdr = self.impl_header(mi.group(1), int(mi.group(2))) if mi else None
                    if hdr and base_type(hdr[1]) == ty:
                        keep.append(k)
                cands = keep or cands
            if len(cands) > 1 and st is not None and st.stack:
                # a promoted constant belongs to the function being executed: same `<impl at file:line:col>` segment / same function name
                cur = st.stack[-1].func.name
                mi = re.search(r'<impl at [^>]*>', cur)
                exact = [k for k in cands if k.startswith(cur + '::promoted[')]
                keep = exact or [k for k in cands if (mi and mi.group(0) in k)]
                cands = keep or cands
            if len(cands) != 1:
                raise NotEncoded(f'promoted constant {tok}: {len(cands)} candidates')
            key = ('const', cands[0])
            if key not in self.memo:
                sub = Exec.__new__(Exec)
                sub.__dict__.update(self.__dict__)
                outs = sub.run(self.prog.const_body(cands[0]), [])
                rets = [o for o in outs if o.kind == 'ret' and self.feasible(o.pc)]
                if len(rets) != 1:
                    raise NotEncoded(f'promoted constant {tok}: {len(rets)} feasible evaluations')
                v = rets[0].val
                # a promoted is a reference into its own frame: copy the referent into the heap of the memo
                def lift(x, n=0):
                    # (a promoted may be a reference to a reference: `&&CONST`)
                    if isinstance(x, Ref) and n < 4:
                        return ('ref', lift(sub.read(rets[0].st, x.fid, x.place), n + 1))
                    return x
                v = lift(v)
                self.memo[key] = v
            v = self.memo[key]

            def mat(x):
                if isinstance(x, tuple) and len(x) == 2 and x[0] == 'ref':
                    return self.new_cell(st, mat(x[1]), 'promoted')
                return x
            return mat(v)
        # named constant of this crate
        last = tok.split('::')[-1]
        if re.match(r'^[A-Z][A-Z0-9_]*$', last):
            lits = [(k, v) for k, v in self.prog.consts_lit.items() if k.split('::')[-1] == last]
            bodies = [k for k in self.prog._const_bodies if k.split('::')[-1] == last and 'promoted' not in k]
            if len(lits) + len(bodies) > 1:
                mod = tok.split('::')[:-2]
                lits = [(k, v) for k, v in lits if k.split('::')[:len(mod)] == mod]
                bodies = [k for k in bodies if k.split('::')[:len(mod)] == mod]
            if len(lits) == 1 and not bodies:
                return self.constant(st, lits[0][1])
            if len(bodies) == 1 and not lits:
                key = ('const', bodies[0])
                if key not in self.memo:
                    sub = Exec.__new__(Exec)
                    sub.__dict__.update(self.__dict__)
                    outs = sub.run(self.prog.const_body(bodies[0]), [])
                    rets = [o for o in outs if o.kind == 'ret' and self.feasible(o.pc)]
                    if len(rets) != 1:
                        raise NotEncoded(f'constant {tok}: {len(rets)} feasible evaluations')
                    self.memo[key] = rets[0].val
                return self.memo[key]
        if re.match(r'^[\w:<>, &\'\[\]\(\)\{\}@/\.\-#;=+\*!]+$', tok):
            return FnItem(tok)
        raise NotEncoded('constant ' + tok)

    def operand(self, st, fid, op):
        if op[0] == 'const':
            return self.constant(st, op[1])
        return self.read(st, fid, op[1])

    # -------------------------------------------------------------- arithmetic
    def concrete(self, t):
        t = z3.simplify(t)
        if z3.is_int_value(t) or z3.is_bv_value(t):
            return t.as_long()
        return None

    def wrap(self, t, ty):
        if self.mode == 'bv':
            return t
        w, sg = INT_TY[ty]
        c = self.concrete(t) if z3.is_int_value(t) else None
        m = 1 << w
        if c is not None:
            c %= m
            if sg and c >= (1 << (w - 1)):
                c -= m
            return z3.IntVal(c)
        return ((t + (1 << (w - 1))) % m) - (1 << (w - 1)) if sg else t % m

    def norm(self, t):
        """value-preserving normal form used to recognise equal operands of divisions: nested `% M` inside a sum that is itself taken
        `% M` are dropped ((u % M + v) % M == (u + v) % M), then z3's simplifier"""
        def strip(u, M):
            if z3.is_app(u):
                k = u.decl().kind()
                if k == z3.Z3_OP_MOD and z3.is_int_value(u.arg(1)) and u.arg(1).as_long() == M:
                    return strip(u.arg(0), M)
                if k in (z3.Z3_OP_ADD, z3.Z3_OP_SUB, z3.Z3_OP_UMINUS):
                    args = [strip(c, M) for c in u.children()]
                    return -args[0] if k == z3.Z3_OP_UMINUS else (sum(args[1:], args[0]) if k == z3.Z3_OP_ADD else args[0] - sum(args[2:], args[1]) if len(args) > 1 else args[0])
                if k == z3.Z3_OP_MUL and all(z3.is_int_value(c) for c in u.children()[:-1]):
                    args = u.children()
                    r = strip(args[-1], M)
                    for c in args[:-1]:
                        r = c * r
                    return r
            return go(u)

        def go(u):
            if z3.is_app(u) and u.num_args() > 0:
                if u.decl().kind() == z3.Z3_OP_MOD and z3.is_int_value(u.arg(1)) and u.arg(1).as_long() > 0:
                    M = u.arg(1).as_long()
                    return strip(u.arg(0), M) % M
                ch = [go(c) for c in u.children()]
                try:
                    return u.decl()(*ch)
                except Exception:
                    return u
            return u
        try:
            return z3.simplify(go(z3.simplify(t)))
        except Exception:
            return z3.simplify(t)

    def divrem(self, a, b):
        """truncating quotient and remainder of mathematical integers, as fresh variables + lemma (b != 0 assumed by caller)"""
        ca, cb = (self.concrete(a) if z3.is_int_value(z3.simplify(a)) else None), (self.concrete(b) if z3.is_int_value(z3.simplify(b)) else None)
        if ca is not None and cb is not None and cb != 0:
            q = abs(ca) // abs(cb) * (1 if (ca >= 0) == (cb >= 0) else -1)
            return z3.IntVal(q), z3.IntVal(ca - q * cb)
        key = ('divrem', self.norm(a).sexpr(), self.norm(b).sexpr())
        if key in self.memo:
            return self.memo[key]
        n = next(self.fresh_n)
        q, r = z3.Int(f'q!{n}'), z3.Int(f'r!{n}')
        self.memo[key] = (q, r)
        absb = z3.If(b < 0, -b, b)
        # two separate facts: the (nonlinear) defining equation and the (linear) bounds - queries are first tried with linear facts only
        self.invariants.append(z3.Implies(b != 0, a == q * b + r))
        self.invariants.append(z3.Implies(b != 0, z3.If(a >= 0, z3.And(r >= 0, r < absb), z3.And(r <= 0, -r < absb))))
        return q, r

    def binop(self, op, a, b):
        if isinstance(a, BoolV) and isinstance(b, BoolV):
            f = {'BitAnd': lambda: z3.And(a.t, b.t), 'BitOr': lambda: z3.Or(a.t, b.t), 'BitXor': lambda: z3.Xor(a.t, b.t),
                 'Eq': lambda: a.t == b.t, 'Ne': lambda: a.t != b.t,
                 'Lt': lambda: z3.And(z3.Not(a.t), b.t), 'Le': lambda: z3.Implies(a.t, b.t),
                 'Gt': lambda: z3.And(a.t, z3.Not(b.t)), 'Ge': lambda: z3.Implies(b.t, a.t)}.get(op)
            if f is None:
                raise NotEncoded(f'bool binop {op}')
            return BoolV(z3.simplify(f()))
        if not (isinstance(a, IntV) and isinstance(b, IntV)):
            raise NotEncoded(f'binop {op} on {a!r}, {b!r}')
        ty = a.ty if a.ty != 'char' else 'u32'
        if self.mode == 'bv':
            return self.binop_bv(op, a, b, ty)
        x, y = a.t, b.t
        lo, hi = rng(ty)
        if op in ('Add', 'Sub', 'Mul', 'AddUnchecked', 'SubUnchecked', 'MulUnchecked'):
            e = {'Add': x + y, 'Sub': x - y, 'Mul': x * y}[op[:3]]
            return IntV(self.wrap(e, ty), a.ty)
        if op in ('AddWithOverflow', 'SubWithOverflow', 'MulWithOverflow'):
            e = {'Add': x + y, 'Sub': x - y, 'Mul': x * y}[op[:3]]
            return Agg('tuple', None, None, [IntV(self.wrap(e, ty), a.ty), BoolV(z3.simplify(z3.Or(e < lo, e > hi)))])
        if op == 'Div':
            return IntV(self.wrap(self.divrem(x, y)[0], ty), a.ty)
        if op == 'Rem':
            return IntV(self.divrem(x, y)[1], a.ty)
        cmp = {'Eq': lambda: x == y, 'Ne': lambda: x != y, 'Lt': lambda: x < y, 'Le': lambda: x <= y,
               'Gt': lambda: x > y, 'Ge': lambda: x >= y}
        if op in cmp:
            return BoolV(z3.simplify(cmp[op]()))
        if op in ('Shl', 'Shr', 'ShlUnchecked', 'ShrUnchecked'):
            c = self.concrete(y)
            if c is not None:
                w = INT_TY[ty][0]
                c %= w
                if op.startswith('Shl'):
                    return IntV(self.wrap(x * (1 << c), ty), a.ty)
                q = z3.If(x >= 0, x / (1 << c), -((-x + (1 << c) - 1) / (1 << c))) if INT_TY[ty][1] else x / (1 << c)
                return IntV(q, a.ty)
        if op in ('BitAnd', 'BitOr', 'BitXor'):
            cx, cy = self.concrete(x), self.concrete(y)
            if cx is not None and cy is not None:
                w, sg = INT_TY[ty]
                r = {'BitAnd': cx & cy, 'BitOr': cx | cy, 'BitXor': cx ^ cy}[op]
                return IntV(self.wrap(z3.IntVal(r), ty), a.ty)
        if op == 'Cmp':
            return Agg('variant', 'std::cmp::Ordering', None, [IntV(z3.If(x < y, -1, z3.If(x == y, 0, 1)), 'i8')])
        raise NotEncoded(f'int binop {op} in Int mode on symbolic operands')

    def binop_bv(self, op, a, b, ty):
        x, y = a.t, b.t
        w, sg = INT_TY[ty]
        if y.size() != x.size():
            y = z3.ZeroExt(x.size() - y.size(), y) if y.size() < x.size() else z3.Extract(x.size() - 1, 0, y)
        if op in ('Add', 'Sub', 'Mul', 'AddUnchecked', 'SubUnchecked', 'MulUnchecked'):
            return IntV({'Add': x + y, 'Sub': x - y, 'Mul': x * y}[op[:3]], a.ty)
        if op in ('AddWithOverflow', 'SubWithOverflow', 'MulWithOverflow'):
            ext = (lambda v, n: z3.SignExt(n, v)) if sg else (lambda v, n: z3.ZeroExt(n, v))
            n = w if op.startswith('Mul') else 1
            X, Y = ext(x, n), ext(y, n)
            E = {'Add': X + Y, 'Sub': X - Y, 'Mul': X * Y}[op[:3]]
            r = z3.Extract(w - 1, 0, E)
            return Agg('tuple', None, None, [IntV(r, a.ty), BoolV(z3.simplify(ext(r, n) != E))])
        if op == 'Div':
            return IntV(x / y if sg else z3.UDiv(x, y), a.ty)
        if op == 'Rem':
            return IntV(z3.SRem(x, y) if sg else z3.URem(x, y), a.ty)
        if op in ('BitAnd', 'BitOr', 'BitXor'):
            return IntV({'BitAnd': x & y, 'BitOr': x | y, 'BitXor': x ^ y}[op], a.ty)
        if op in ('Shl', 'ShlUnchecked'):
            return IntV(x << z3.URem(y, z3.BitVecVal(w, w)), a.ty)
        if op in ('Shr', 'ShrUnchecked'):
            s = z3.URem(y, z3.BitVecVal(w, w))
            return IntV((x >> s) if sg else z3.LShR(x, s), a.ty)
        cmp = {'Eq': lambda: x == y, 'Ne': lambda: x != y,
               'Lt': lambda: x < y if sg else z3.ULT(x, y), 'Le': lambda: x <= y if sg else z3.ULE(x, y),
               'Gt': lambda: x > y if sg else z3.UGT(x, y), 'Ge': lambda: x >= y if sg else z3.UGE(x, y)}
        if op in cmp:
            return BoolV(z3.simplify(cmp[op]()))
        raise NotEncoded(f'bv binop {op}')

    def unop(self, op, a):
        if op == 'Not':
            if isinstance(a, BoolV):
                return BoolV(z3.simplify(z3.Not(a.t)))
            if isinstance(a, IntV):
                if self.mode == 'bv':
                    return IntV(~a.t, a.ty)
                w, sg = INT_TY[a.ty]
                return IntV((-a.t - 1) if sg else ((1 << w) - 1 - a.t), a.ty)
        if op == 'Neg' and isinstance(a, IntV):
            if self.mode == 'bv':
                return IntV(-a.t, a.ty)
            return IntV(self.wrap(-a.t, a.ty), a.ty)
        raise NotEncoded(f'unop {op} on {a!r}')

    def cast_int(self, v, ty):
        if isinstance(v, BoolV):
            if self.mode == 'bv':
                return IntV(z3.If(v.t, z3.BitVecVal(1, INT_TY[ty][0]), z3.BitVecVal(0, INT_TY[ty][0])), ty)
            return IntV(z3.If(v.t, 1, 0), ty)
        if not isinstance(v, IntV):
            raise NotEncoded(f'int cast of {v!r}')
        src = 'u32' if v.ty == 'char' else v.ty
        if self.mode == 'bv':
            ws, ss = INT_TY[src]
            wd = INT_TY[ty][0]
            if wd == ws:
                return IntV(v.t, ty)
            if wd < ws:
                return IntV(z3.Extract(wd - 1, 0, v.t), ty)
            return IntV(z3.SignExt(wd - ws, v.t) if ss else z3.ZeroExt(wd - ws, v.t), ty)
        slo, shi = rng(src)
        dlo, dhi = rng(ty)
        if slo >= dlo and shi <= dhi:
            return IntV(v.t, ty)
        return IntV(self.wrap(v.t, ty), ty)

    # -------------------------------------------------------------- rvalues
    def rvalue(self, st, fid, rv, dest_ty):
        k = rv[0]
        if k == 'use':
            return self.operand(st, fid, rv[1])
        if k == 'binop':
            return self.binop(rv[1], self.operand(st, fid, rv[2]), self.operand(st, fid, rv[3]))
        if k == 'unop':
            if rv[1] == 'PtrMetadata':
                # length of a slice reference whose referent is a concrete array
                r = self.operand(st, fid, rv[2])
                v, n = r, 0
                while isinstance(v, Ref) and n < 6:
                    v = self.read(st, v.fid, v.place)
                    n += 1
                if isinstance(v, Agg) and (v.kind == 'array' or v.name == '~vec'):
                    return self.const_int(len(v.fields), 'usize')
                raise NotEncoded(f'PtrMetadata of {r!r}')
            return self.unop(rv[1], self.operand(st, fid, rv[2]))
        if k == 'ref':
            p = rv[1]
            # reborrow `&(*_x)` of a reference: same target
            if p[0] == 'deref':
                r = self.read(st, fid, p[1])
                if isinstance(r, Ref):
                    return r
                if isinstance(r, Opaque):
                    tf, tp = self.deref_target(st, r)
                    return Ref(tf, tp)
            f2, p2 = self.resolve_place(st, fid, p)
            return Ref(f2, p2)
        if k == 'discriminant':
            v = self.read(st, fid, rv[1])
            if isinstance(v, Agg):
                if v.variant is None:
                    raise NotEncoded(f'discriminant of non-enum {v!r}')
                return self.const_int(self.variant_index(v), 'isize') if self.mode != 'bv' else IntV(z3.IntVal(self.variant_index(v)), 'isize')
            if isinstance(v, Opaque):
                return IntV(self.disc_term(v), 'isize')
            raise NotEncoded(f'discriminant of {v!r}')
        if k == 'copyforderef':
            return self.read(st, fid, rv[1])
        if k == 'cast':
            v = self.operand(st, fid, rv[1])
            kind = rv[3]
            if kind.startswith('IntToInt'):
                return self.cast_int(v, rv[2]) if rv[2] in INT_TY else v
            if kind.startswith(('PointerCoercion', 'PtrToPtr', 'Subtype')):
                return v
            if kind.startswith('Transmute') and isinstance(v, (Opaque, Ref)) and ('*const' in rv[2] or '*mut' in rv[2]):
                return Opaque(rv[2], v.what, v.id, v.over) if isinstance(v, Opaque) else v     # pointer-to-pointer transmute
            if kind.startswith('Transmute') and isinstance(v, Agg) and v.name == 'NonNull' and len(v.fields) == 1 and isinstance(v.fields[0], Ref) and ('*const' in rv[2] or '*mut' in rv[2]):
                return v.fields[0]          # NonNull<T> -> *const T: the pointer itself (how MIR dereferences a Box)
            raise NotEncoded(f'cast {kind} of {v!r} to {rv[2]}')
        if k == 'agg':
            return self.aggregate(st, fid, rv, dest_ty)
        if k == 'closure':
            return Agg('closure', rv[1], None, [self.operand(st, fid, o) for _, o in rv[2]], tuple(n for n, _ in rv[2]))
        if k == 'repeat':
            n = re.match(r'^(\d+)', rv[2].replace('const ', ''))
            if n and int(n.group(1)) <= 32:
                v = self.operand(st, fid, rv[1])
                return Agg('array', None, None, [v] * int(n.group(1)))
        if k == 'len':
            v = self.read(st, fid, rv[1])
            if isinstance(v, Agg) and v.kind == 'array':
                return self.const_int(len(v.fields), 'usize')
        raise NotEncoded(f'rvalue {rv}')

    def resolve_place(self, st, fid, p):
        """(frame, place) with every deref of a reference resolved now, so a Ref to it stays valid"""
        if p[0] == 'local':
            return fid, p
        if p[0] == 'deref':
            r = self.read(st, fid, p[1])
            return self.deref_target(st, r)
        f2, inner = self.resolve_place(st, fid, p[1])
        return f2, (p[0], inner) + tuple(p[2:])

    def aggregate(self, st, fid, rv, dest_ty):
        _, kind, head, ops = rv
        if kind == 'tuple':
            return Agg('tuple', None, None, [self.operand(st, fid, o) for o in ops])
        if kind == 'array':
            return Agg('array', None, None, [self.operand(st, fid, o) for o in ops])
        fnames = None
        if kind == 'struct':
            fnames = tuple(n for n, _ in ops)
            vals = [self.operand(st, fid, o) for _, o in ops]
        else:
            vals = [self.operand(st, fid, o) for o in ops]
        path = re.sub(r'::<[^()]*?>(?=::|$)', '', self._strip_generics(head))
        segs = [s for s in path.split('::') if s]
        last = segs[-1] if segs else head
        D = base_type(dest_ty) if dest_ty else None
        if D is not None and last == D:
            return Agg('struct', dest_ty, None, vals, fnames)
        if kind == 'unit' and (D is None or (len(segs) >= 2 and segs[-2] != D and last != D)):
            # not an aggregate of the destination type: a path used as a value (fn item / const)
            return self.constant(st, head)
        enum = '::'.join(segs[:-1]) if len(segs) > 1 else dest_ty
        return Agg('variant', dest_ty or enum, last, vals, fnames)

    @staticmethod
    def _strip_generics(s):
        out, depth = [], 0
        i = 0
        # a trailing `::<impl Trait<..>>` is the argument list of a method with an anonymous type parameter, not an `<impl Type>` path segment
        mt = re.search(r'::<impl [^:]', s)
        if mt:
            j, d = mt.start() + 2, 0
            while j < len(s):
                if s[j] == '<':
                    d += 1
                elif s[j] == '>' and s[j - 1] != '-':
                    d -= 1
                    if d == 0:
                        break
                j += 1
            if j == len(s) - 1 and re.search(r'\w$', s[:mt.start()]) and not re.search(r'(^|::)(num|str|slice|char|bool|f32|f64|array|ptr)$', s[:mt.start()]):
                s = s[:mt.start()]
        while i < len(s):
            if s.startswith('::<', i) and not s.startswith('::<impl ', i):
                j = i + 2
                d = 0
                while j < len(s):
                    if s[j] == '<':
                        d += 1
                    elif s[j] == '>' and s[j - 1] != '-':
                        d -= 1
                        if d == 0:
                            break
                    j += 1
                i = j + 1
                continue
            out.append(s[i]); i += 1
        return ''.join(out)

    # -------------------------------------------------------------- feasibility
    def feasible(self, pc, extra=()):
        # one long-lived solver holding the invariants; the path condition goes in under push/pop (the python API overhead of re-asserting
        # everything on a fresh solver dominated long explorations), answers memoised on the ids of the conjuncts
        fs = list(pc) + list(extra)
        key = (len(self.invariants), tuple(sorted(f.get_id() for f in fs)))
        memo = self.__dict__.setdefault('_feas_memo', {})
        if key in memo:
            return memo[key]
        sv = self.__dict__.get('_feas_solver')
        if sv is None or sv[0] != len(self.invariants):
            s = z3.Solver()
            s.set('timeout', 3000)
            for f in self.invariants:
                s.add(f)
            sv = self.__dict__['_feas_solver'] = (len(self.invariants), s)
        s = sv[1]
        s.push()
        try:
            if fs:
                s.add(*fs)
            r = s.check() != z3.unsat
        finally:
            s.pop()
        if len(memo) < 200000:
            memo[key] = r
        return r

    # -------------------------------------------------------------- stubs
    def stub(self, pattern, fn, tag=None):
        self.stubs.append((re.compile(pattern), fn, tag or pattern))

    def model(self, pattern, fn):
        self.models.append((re.compile(pattern), fn))

    # -------------------------------------------------------------- run
    def run(self, func, args=None, start='bb0', env=None, stop=(), pre=(), heap=None, subst=None):
        st = State()
        st.frames = {0: dict(heap or {})}
        st.pc = list(pre)
        st.log, st.notes = [], {}
        fid = next(self.fid_n)
        st.frames[fid] = dict(env or {})
        if args is not None:
            if len(args) != len(func.args):
                raise NotEncoded(f'{func.name}: {len(args)} args for {len(func.args)} parameters')
            for (name, ty), v in zip(func.args, args):
                st.frames[fid][name] = v
        st.stack = [Frame(func, fid, start, subst=subst)]
        self.root_fid = fid
        work, outs = [st], []
        while work:
            if len(outs) + len(work) > self.max_paths:
                raise NotEncoded(f'path budget exceeded ({self.max_paths})')
            cur = work.pop()
            self.step(cur, work, outs, stop)
        return outs

    def run_enter(self, st, enter):
        """run a function / closure body on a fork of an existing state (its frames stay readable through references)"""
        s2 = st.fork()
        s2.stack = []
        s2.notes = {}
        work, outs = [], []
        if isinstance(enter, list):
            self_alts = enter
            res = []
            for alt in self_alts:
                s3 = s2.fork()
                s3.pc.extend(alt[0])
                if isinstance(alt[1], Enter):
                    self.enter(s3, alt[1], None, None, work, outs)
                else:
                    outs.append(Outcome('ret', s3, alt[1]))
        elif isinstance(enter, Enter):
            self.enter(s2, enter, None, None, work, outs)
        else:
            return [Outcome('ret', s2, enter)]
        while work:
            if len(outs) + len(work) > self.max_paths:
                raise NotEncoded('path budget exceeded')
            self.step(work.pop(), work, outs, ())
        return outs

    def args_havoc(self, func, st=None):
        return [self.fresh(ty, self._dbg(func, name), st) for name, ty in func.args]

    def step(self, st, work, outs, stop):
        """execute one basic block of the top frame"""
        self.stats['steps'] += 1
        if self.stats['steps'] > self.max_steps:
            raise NotEncoded('step budget exceeded')
        fr = st.stack[-1]
        if len(st.stack) == 1 and fr.bb in stop and st.notes.get('moved'):
            outs.append(Outcome('stop:' + fr.bb, st))
            return
        st.notes['moved'] = True
        f, fid = fr.func, fr.fid
        if fr.bb not in f.blocks:
            raise NotEncoded(f'{f.name}: no block {fr.bb}')
        for s in f.parsed_block(fr.bb):
            k = s[0]
            if k == 'nop':
                continue
            if k == 'assign':
                dest_ty = f.locals.get(s[1][1]) if s[1][0] == 'local' else (s[1][3] if s[1][0] == 'field' else None)
                self.write(st, fid, s[1], self.rvalue(st, fid, s[2], dest_ty))
                continue
            if k == 'goto':
                fr.bb = s[1]
                work.append(st)
                return
            if k == 'return':
                self.do_return(st, work, outs)
                return
            if k == 'unreachable':
                outs.append(Outcome('unreachable', st, msg=f'{f.name}:{fr.bb}'))
                return
            if k == 'resume':
                return
            if k == 'switch':
                self.do_switch(st, fid, s, work)
                return
            if k == 'assert':
                c = self.operand(st, fid, s[2])
                ok = z3.Not(c.t) if s[1] else c.t
                ok = z3.simplify(ok)
                if not z3.is_true(ok):
                    bad = st.fork()
                    bad.pc.append(z3.Not(ok))
                    if not self.prune or self.feasible(bad.pc):
                        outs.append(Outcome('panic', bad, msg=f'{f.name}:{fr.bb}: assert {s[3][:80]}'))
                    st.pc.append(ok)
                fr.bb = s[4]
                work.append(st)
                return
            if k == 'call':
                self.do_call(st, fid, s, work, outs)
                return
            raise NotEncoded(f'{f.name}:{fr.bb}: statement {s}')
        raise NotEncoded(f'{f.name}:{fr.bb}: block without terminator')

    def do_return(self, st, work, outs):
        fr = st.stack.pop()
        val = st.frames[fr.fid].get('_0', UNIT)
        self.deliver(st, fr, val, work, outs)

    def deliver(self, st, fr, val, work, outs):
        """`fr` (already popped) returned `val`"""
        alts = [([], val)]
        if fr.on_return is not None:
            r = fr.on_return(st, val)
            if isinstance(r, Enter):
                self.enter(st, r, fr.dest, fr.ret_bb, work, outs)
                return
            if isinstance(r, Diverge):
                outs.append(Outcome('panic', st, msg=r.msg))
                return
            alts = r if isinstance(r, list) else [([], r)]
        for i, alt in enumerate(alts):
            conds, v = alt[0], alt[1]
            s2 = st if i == len(alts) - 1 else st.fork()
            s2.pc.extend(conds)
            if conds and self.prune and not self.feasible(s2.pc):
                self.stats['pruned'] += 1
                continue
            if len(alt) > 2 and alt[2] is not None:
                alt[2](s2)
            if isinstance(v, Diverge):
                outs.append(Outcome('panic', s2, msg=v.msg))
                continue
            if isinstance(v, Enter):
                self.enter(s2, v, fr.dest, fr.ret_bb, work, outs)
                continue
            if not s2.stack:
                outs.append(Outcome('ret', s2, v))
                continue
            caller = s2.stack[-1]
            if fr.dest is not None:
                self.write(s2, caller.fid, fr.dest, v)
            if fr.ret_bb is None:
                outs.append(Outcome('diverged', s2, v, msg='return into a call without successor'))
                continue
            caller.bb = fr.ret_bb
            work.append(s2)

    def enter(self, st, e, dest, ret_bb, work, outs):
        fid = next(self.fid_n)
        st.frames[fid] = {}
        func = e.func
        args = e.args
        if len(args) != len(func.args):
            raise NotEncoded(f'{func.name}: arity {len(args)} vs {len(func.args)}')
        for (name, ty), v in zip(func.args, args):
            st.frames[fid][name] = v
        st.stack.append(Frame(func, fid, 'bb0', dest, ret_bb, e.then, e.subst))
        self.stats['inlined'].add(func.name)
        work.append(st)

    def do_switch(self, st, fid, s, work):
        v = self.operand(st, fid, s[1])
        targets = [(a, b) for a, b in s[2] if a != 'otherwise']
        other = dict(s[2]).get('otherwise')
        fr = st.stack[-1]
        if isinstance(v, BoolV):
            t = z3.simplify(v.t)
            tmap = dict(targets)
            if z3.is_true(t) or z3.is_false(t):
                key = '1' if z3.is_true(t) else '0'
                fr.bb = tmap.get(key, other)
                work.append(st)
                return
            alts = []
            if '0' in tmap:
                alts.append((z3.Not(t), tmap['0']))
                alts.append((t, tmap.get('1', other)))
            else:
                alts.append((t, tmap['1']))
                alts.append((z3.Not(t), other))
        elif isinstance(v, IntV):
            c = self.concrete(v.t)
            if c is not None:
                lo, hi = rng(v.ty if v.ty != 'char' else 'u32')
                tmap = {int(a): b for a, b in targets}
                # MIR prints switch values as unsigned bit patterns for signed types
                if c not in tmap and c < 0:
                    c2 = c + (1 << INT_TY[v.ty][0])
                    c = c2 if c2 in tmap else c
                fr.bb = tmap.get(c, other)
                if fr.bb is None:
                    raise NotEncoded('switch without matching target')
                work.append(st)
                return
            alts = []
            w = INT_TY[v.ty if v.ty != 'char' else 'u32']
            def lit(a):
                a = int(a)
                if w[1] and a >= (1 << (w[0] - 1)):
                    a -= (1 << w[0])
                return a
            if self.mode == 'bv' and z3.is_bv(v.t):
                for a, b in targets:
                    alts.append((v.t == z3.BitVecVal(int(a), v.t.size()), b))
                if other:
                    alts.append((z3.And([v.t != z3.BitVecVal(int(a), v.t.size()) for a, _ in targets]), other))
            else:
                for a, b in targets:
                    alts.append((v.t == lit(a), b))
                if other:
                    alts.append((z3.And([v.t != lit(a) for a, _ in targets]) if targets else z3.BoolVal(True), other))
        else:
            raise NotEncoded(f'switch on {v!r}')
        live = []
        for cond, bb in alts:
            if bb is None:
                continue
            if self.prune and not self.feasible(st.pc, [cond]):
                self.stats['pruned'] += 1
                continue
            live.append((cond, bb))
        self.stats['forks'] += max(0, len(live) - 1)
        for i, (cond, bb) in enumerate(live):
            s2 = st if i == len(live) - 1 else st.fork()
            s2.pc.append(cond)
            s2.stack[-1].bb = bb
            work.append(s2)

    # -------------------------------------------------------------- calls
    def do_call(self, st, fid, s, work, outs):
        _, dest, callee, ops, nxt = s
        fr = st.stack[-1]
        callee = apply_subst(callee, fr.subst)
        args = [self.operand(st, fid, o) for o in ops]
        if re.match(r'^(move|copy) ', callee):
            # call through a function pointer / closure value held in a local
            from .mirparse import parse_operand
            fv = self.operand(st, fid, parse_operand(callee))
            r = self.call_value(st, fv, args)
        else:
            r = self.dispatch(st, callee, args)
        if isinstance(r, HavocCall):
            dty = fr.func.locals.get(dest[1]) if dest[0] == 'local' else (dest[3] if dest[0] == 'field' else None)
            if dty is None:
                raise NotEncoded(f'havoc call into place {dest}')
            r = self.fresh(apply_subst(dty, fr.subst), 'havoc', st)
            st.log.append(Call(callee, args, r, 'HAVOC'))
        self.apply_call_result(st, r, callee, args, dest, nxt, work, outs)

    def apply_call_result(self, st, r, callee, args, dest, nxt, work, outs):
        fr = st.stack[-1]
        if isinstance(r, Diverge):
            outs.append(Outcome('panic', st, msg=r.msg))
            return
        if isinstance(r, Enter):
            self.enter(st, r, dest, nxt, work, outs)
            return
        if not isinstance(r, list):
            r = [([], r, None)]
        live = []
        for alt in r:
            conds, val = alt[0], alt[1]
            eff = alt[2] if len(alt) > 2 else None
            conds = [c for c in conds if not z3.is_true(c)]
            if conds and self.prune and not self.feasible(st.pc, conds):
                self.stats['pruned'] += 1
                continue
            live.append((conds, val, eff))
        self.stats['forks'] += max(0, len(live) - 1)
        for i, (conds, val, eff) in enumerate(live):
            s2 = st if i == len(live) - 1 else st.fork()
            s2.pc.extend(conds)
            if eff is not None:
                eff(s2)
            if isinstance(val, Diverge):
                outs.append(Outcome('panic', s2, msg=val.msg))
                continue
            if isinstance(val, Enter):
                self.enter(s2, val, dest, nxt, work, outs)
                continue
            if nxt is None:
                outs.append(Outcome('panic', s2, msg=f'diverging call {callee[:80]}'))
                continue
            self.write(s2, s2.stack[-1].fid, dest, val)
            s2.stack[-1].bb = nxt
            work.append(s2)

    def call_value(self, st, fv, args):
        if isinstance(fv, FnItem):
            return self.dispatch(st, fv.path, args)
        if isinstance(fv, Agg) and fv.kind == 'closure':
            return self.call_closure(st, fv, args)
        raise NotEncoded(f'call through {fv!r}')

    def call_closure(self, st, clo, args, then=None, by_ref=None):
        """enter the body of closure value `clo` with (untupled) `args`"""
        if isinstance(clo, Ref):
            clo = self.read(st, clo.fid, clo.place)
        if isinstance(clo, FnItem):
            r = self.dispatch(st, clo.path, args)
            if then is None:
                return r
            if isinstance(r, Enter):
                if r.then is not None:
                    raise NotEncoded('nested continuation')
                return Enter(r.func, r.args, then, r.subst)
            if isinstance(r, list) and all(len(a) < 3 or a[2] is None for a in r):
                out = []
                for a in r:
                    t = then(st, a[1])
                    if isinstance(t, list):
                        out += [(list(a[0]) + list(c), v) for c, v in t]
                    elif isinstance(t, (Enter, Diverge)):
                        raise NotEncoded('continuation after stub enters code')
                    else:
                        out.append((a[0], t))
                return out
            if not isinstance(r, (list, Enter, Diverge)):
                return then(st, r)
            raise NotEncoded('continuation over effectful alternatives')
        if isinstance(clo, Agg) and clo.kind == 'variant' and not clo.fields:
            # an enum-variant constructor used as a function value (`.map(Either::Left)`)
            r = Agg('variant', clo.name, clo.variant, list(args))
            return then(st, r) if then is not None else r
        if not (isinstance(clo, Agg) and clo.kind == 'closure'):
            raise NotEncoded(f'not a closure: {clo!r}')
        m = re.search(r'\{closure@([^}]*)\}', clo.name)
        bodies = self.prog.closure_by_span(m.group(1)) if m else []
        if len(bodies) != 1:
            raise NotEncoded(f'closure body for {clo.name}: {len(bodies)} candidates')
        body = bodies[0]
        a0ty = body.args[0][1]
        self_arg = clo
        if a0ty.startswith('&'):
            self_arg = self.new_cell(st, clo, 'closure')
        return Enter(body, [self_arg] + list(args), then)

    def dispatch(self, st, callee, args):
        for rx, fn, tag in self.stubs:
            if rx.search(callee):
                r = fn(self, st, callee, args)
                if r is not None:
                    self.stats['stubbed'].add(tag)
                    return self._log(st, callee, args, r, tag)
        for rx, fn in self.models:
            if rx.search(callee):
                r = fn(self, st, callee, args)
                if r is not None:
                    self.stats['modelled'].add(rx.pattern)
                    return r
        rs = self.resolve(callee, args)
        if rs is not None:
            func, subst = rs
            if any(re.search(p, callee) for p in self.no_inline):
                raise NotEncoded(f'call to {callee} must be stubbed')
            if sum(1 for fr in st.stack if fr.func is func) >= getattr(self, 'max_recursion', 3):
                raise NotEncoded(f'recursion into {func.name} via {callee[:120]} in {" <- ".join(fr.func.name.split("::")[-1] for fr in reversed(st.stack[-5:]))}')
            return Enter(func, args, None, subst)
        if self.havoc_unknown:
            self.stats['stubbed'].add('HAVOC (unknown callee returns an arbitrary value): ' + callee[:80])
            return HavocCall(callee)
        raise NotEncoded(f'call to {callee} (no stub, model or body) in {" <- ".join(fr.func.name.split("::")[-1] for fr in reversed(st.stack[-4:]))}')

    def _log(self, st, callee, args, r, tag):
        if isinstance(r, (Enter, Diverge)):
            st.log.append(Call(callee, args, r, tag))
            return r
        if not isinstance(r, list):
            st.log.append(Call(callee, args, r, tag))
            return r
        out = []
        for alt in r:
            conds, val = alt[0], alt[1]
            eff = alt[2] if len(alt) > 2 else None
            def mk(eff=eff, val=val):
                def e(s2):
                    s2.log.append(Call(callee, args, val, tag))
                    if eff is not None:
                        eff(s2)
                return e
            out.append((conds, val, mk()))
        return out

    # -------------------------------------------------------------- callee resolution
    def resolve(self, callee, args):
        key = ('resolve', callee)
        if key in self.memo:
            return self.memo[key]
        r = self._resolve(callee, args)
        self.memo[key] = r
        return r

    def _resolve(self, callee, args):
        prog = self.prog
        plain = self._strip_generics(callee)
        # 1. exact (trimmed) name
        cands = [f for f in prog.funcs_named(callee)] or [f for f in prog.funcs_named(plain)]
        if len(cands) > 1 and len({(f.name, tuple(f.args), re.sub(r'\s*//[^\n]*', '', f.text).strip()) for f in cands}) == 1:
            cands = cands[:1]       # `const fn` / tuple-variant constructors are dumped twice (runtime MIR and MIR for CTFE) with identical bodies
        if len(cands) == 1:
            if not cands[0].blocks:
                return None
            return (cands[0], self.turbofish_subst(callee, cands[0]))
        if len(cands) > 1:
            raise NotEncoded(f'ambiguous callee {callee}: {len(cands)} bodies')
        # 2. Type::method  ->  <impl at file:line>::method whose impl header names Type
        m = re.match(r'^(?:<(.*) as (.*)>|(.*))::(\w+)$', plain)
        if not m:
            return None
        meth = m.group(4)
        if m.group(3) is not None:
            self_ty, trait = m.group(3), None
            mi = re.match(r'^(?:[\w:]*::)?<impl (.+)>$', self_ty)
            if mi:
                self_ty = mi.group(1)
        else:
            self_ty, trait = m.group(1), m.group(2)
        if self_ty.lstrip('&').startswith('<'):
            return None           # an associated-type projection (`<I as IntoIterator>::IntoIter`): not a nameable impl of this crate
        sb = base_type(self_ty)
        out = []
        if trait is None and re.match(r"^(std|core|alloc|cedar_policy_core|cedar_policy_formatter|serde_json|serde|miette|smol_str|itertools|nonempty|thiserror|ref_cast)::", self_ty):
            return None       # an inherent method of a std type (`std::string::String::new`): never a body of this crate
        if trait is not None and re.match(r"^&*(?:'\w+ )?(?:mut )?(std|core|alloc)::", self_ty) and '::' not in trait.split('<')[0]:
            return None       # a std trait on a std type: never an impl of this crate (same-named crate types notwithstanding)
        for name in prog.names():
            if not name.endswith('>::' + meth) and not name.endswith('::' + meth):
                continue
            mm = re.search(r'<impl at ([^>]*?\.rs):(\d+):(\d+): (\d+):(\d+)>::' + re.escape(meth) + r'$', name)
            if mm:
                hdr = self.impl_header(mm.group(1), int(mm.group(2)), (int(mm.group(3)), int(mm.group(5))) if mm.group(2) == mm.group(4) else None)
                if hdr is None:
                    continue
                h_trait, h_self, gens = hdr
                if h_trait is not None and h_trait.endswith('prost::Enumeration'):
                    # #[derive(::prost::Enumeration)] on a field-less enum E generates `impl From<E> for i32` and `impl TryFrom<i32> for E` under one span
                    full = name.split('<impl')[0] + h_self
                    same = lambda t: t.strip() == full or full.endswith('::' + t.strip()) or t.strip().endswith('::' + full)
                    if trait is not None and ((meth == 'from' and self_ty.strip() == 'i32' and base_type(trait) == 'From' and type_args(trait) and same(type_args(trait)[0]))
                                              or (meth == 'try_from' and base_type(trait) == 'TryFrom' and type_args(trait) == ['i32'] and same(self_ty))):
                        out += [(f, None) for f in prog.funcs_named(name)]
                    continue
                subst = {}
                def unify(h, c):
                    h, c = h.strip(), c.strip()
                    if h in gens:
                        if h in subst and subst[h] != c:
                            return False
                        subst[h] = c
                        return True
                    al = self.enums.aliases if self.enums is not None else {}
                    hb, cb = al.get(base_type(h), base_type(h)), al.get(base_type(c), base_type(c))
                    if {hb, cb} == {'Report', 'ErrReport'} and 'miette' in h + c:
                        hb = cb        # miette::Report is a re-export of miette::ErrReport; MIR prints the latter
                    if hb != cb:
                        return False
                    ha, ca = type_args(h), type_args(c)
                    if ha and ca and len(ha) == len(ca):
                        return all(unify(x, y) for x, y in zip(ha, ca))
                    return True
                if not unify(h_self, self_ty):
                    continue
                if trait is None and h_trait is not None:
                    continue
                if trait is not None and (h_trait is None or not unify(h_trait, trait)):
                    continue
                out += [(f, dict(subst) or None) for f in prog.funcs_named(name)]
                continue
            mm = re.search(r'<impl ([^>]+(?:<[^>]*>)?)>::' + re.escape(meth) + r'$', name)
            if mm and trait is None and base_type(mm.group(1)) == sb:
                out += [(f, None) for f in prog.funcs_named(name)]
        out = [fs for fs in out if fs[0].blocks]
        # a `const fn` is dumped twice (runtime MIR and the MIR for compile-time evaluation): same name and signature
        seen, uniq = set(), []
        for fs in out:
            k = (fs[0].name, tuple(fs[0].args))
            if k not in seen:
                seen.add(k)
                uniq.append(fs)
        out = uniq
        if len(out) > 1 and args is not None:
            out2 = [fs for fs in out if len(fs[0].args) == len(args)]
            out = out2 or out
        if len(out) > 1:
            # same type name in several modules: keep the impls whose module path matches the (trimmed) path written at the call
            mod = '::'.join(re.sub(r"^&(?:'\w+ )?(?:mut )?", '', self_ty).split('<')[0].split('::')[:-1])
            if mod:
                out2 = [fs for fs in out if fs[0].name.split('<impl')[0].rstrip(':').endswith(mod)]
                if not out2:
                    # the impl may live in a sibling module (`impl Expr` for pst::expr::Expr in pst/ast_conversions.rs): same top-level module directory
                    top = mod.split('::')[0]
                    out2 = [fs for fs in out if f'/src/{top}/' in (fs[0].file or '') or (fs[0].file or '').endswith(f'/src/{top}.rs')]
                out = out2 or out
        if len(out) > 1:
            # prefer the impl without generic wildcards (a concrete impl beats a blanket one)
            conc = [fs for fs in out if not fs[1]]
            if len(conc) == 1:
                out = conc
        if len(out) > 1 and trait is not None and meth in ('from', 'try_from', 'into', 'try_into') and len(type_args(trait)) == 1:
            # same type NAME in several modules (ast::Var / models::Var / api Var): the body whose MIR signature spells the callee's types
            nrm = lambda t: re.sub(r"'\w+ ", '', t).replace(' ', '')
            src_ty, dst_ty = (type_args(trait)[0], self_ty) if meth in ('from', 'try_from') else (self_ty, type_args(trait)[0])
            sig = [fs for fs in out if len(fs[0].args) == 1 and nrm(fs[0].args[0][1]).endswith(nrm(src_ty).lstrip('&')) and nrm(fs[0].args[0][1]).startswith('&') == nrm(src_ty).startswith('&')
                   and (nrm(fs[0].ret) == nrm(dst_ty) or nrm(fs[0].ret).startswith('Result<' + nrm(dst_ty) + ',') or nrm(fs[0].ret).endswith('::' + nrm(dst_ty)))]
            if len(sig) == 1:
                out = sig
        if len(out) == 1:
            f0, sub0 = out[0]
            tf = self.turbofish_subst(callee, f0, method=True)
            if tf:
                sub0 = dict(sub0 or {}, **tf)
            return (f0, sub0)
        if len(out) > 1:
            raise NotEncoded(f'ambiguous callee {callee}: {[f.name for f, _ in out][:4]}')
        if trait is not None:
            # no impl of this crate provides the method: a default method of a trait of this crate (`fn m(self, ..) { .. }` in the trait), run with Self := the type
            tb = base_type(trait)
            dflt = [f for n in prog.names() if n.endswith('::' + tb + '::' + meth) and '<impl' not in n for f in prog.funcs_named(n) if f.blocks]
            if len({(f.name, tuple(f.args)) for f in dflt}) == 1:
                sub = {'Self': self_ty}
                tf = self.turbofish_subst(callee, dflt[0], method=True)
                if tf:
                    sub.update(tf)
                return (dflt[0], sub)
        return None

    def turbofish_subst(self, callee, func, method=False):
        """`name::<A, B>` calling a free generic function `fn name<K, V>(..)`: bind the function's type parameters (read from its source header) to the written arguments"""
        m = re.search(r'::<(.*)>$', callee)
        if not m or ('<impl at' in func.name and not method):
            return None
        key = ('generics', func.name)
        if key not in self.memo:
            names = []
            try:
                lines = open(os.path.join(self.src_root, func.file)).read().split('\n')
                text = ' '.join(lines[max(0, func.line - 12): func.line + 6])
                base = func.name.split('::')[-1]
                mh = re.search(r'\bfn\s+' + re.escape(base) + r'\s*<', text)
                if mh:
                    i, d, j = mh.end(), 1, mh.end()
                    while j < len(text) and d:
                        d += text[j] == '<'
                        d -= (text[j] == '>' and text[j - 1] != '-')
                        j += 1
                    for part in split_top(text[i:j - 1]):
                        part = part.strip()
                        if part and not part.startswith("'") and not part.startswith('const '):
                            names.append(re.split(r'[:\s=]', part, 1)[0])
            except (OSError, AttributeError, TypeError):
                names = []
            self.memo[key] = names
        names = self.memo[key]
        args = [a.strip() for a in split_top(m.group(1)) if not a.strip().startswith("'")]
        if not names or len(args) < len(names):
            return None
        sub = {n: a for n, a in zip(names, args) if n != a}
        return sub or None

    def impl_header(self, file, line, col=None):
        key = ('impl', file, line, col)
        if key in self.memo:
            return self.memo[key]
        r = None
        try:
            root = self.src_root
            src = open(file if file.startswith('/') else f'{root}/{file}').read().split('\n')      # absolute: generated code in the OUT_DIR of the dump build
            txt = ' '.join(src[line - 1:line + 8]).strip()
            m = re.match(r'^(?:unsafe )?impl\b', txt)
            in_derive = 'derive' in src[line - 1]
            if not in_derive and col is not None:
                # a #[derive( ... )] list spread over several lines (rustfmt-ed generated code)
                for k in range(line - 2, max(line - 22, -1), -1):
                    if ')]' in src[k]:
                        break
                    if '#[derive(' in src[k]:
                        in_derive = True
                        break
            if not m and col is not None and in_derive:
                # a derive-generated impl: the span covers the trait name inside #[derive(..)]; Self is the item that follows
                trait = src[line - 1][col[0] - 1:col[1] - 1].strip()
                for l2 in src[line:line + 12]:
                    mm = re.match(r'^\s*(?:pub(?:\([^)]*\))?\s+)?(?:struct|enum)\s+(\w+)', l2)
                    if mm:
                        r = (trait, mm.group(1), [])
                        break
            if m:
                rest = txt[m.end():].lstrip()
                gens = []
                if rest.startswith('<'):
                    d = 0
                    for i, ch in enumerate(rest):
                        if ch == '<':
                            d += 1
                        elif ch == '>' and rest[i - 1] != '-':
                            d -= 1
                            if d == 0:
                                break
                    for g in split_top(rest[1:i]):
                        g = g.strip()
                        if g.startswith("'"):
                            continue
                        g = re.sub(r'^const\s+', '', g)
                        gens.append(re.split(r'[:\s=]', g, 1)[0])
                    rest = rest[i + 1:].lstrip()
                rest = rest.split('{', 1)[0]
                rest = re.split(r'\bwhere\b', rest)[0].strip()
                parts = re.split(r'\s+for\s+', rest, 1)
                r = (parts[0].strip(), parts[1].strip(), gens) if len(parts) == 2 else (None, parts[0].strip(), gens)
        except OSError:
            r = None
        self.memo[key] = r
        return r

    src_root = '/repo'
    pending_cells = {}
