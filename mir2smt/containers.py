"""Concrete small containers for obligations whose data structures have concrete keys and sizes on every path (C04: graphs over <= 4 node ids with symbolic edges):
std HashMap / HashSet / Vec / Range as Python-level lists of values, and an iterator with symbolic membership (`~sym_iter`) whose consumers fork.
Part of the trusted base: each operation is the documented behaviour of the std container on concrete keys.  Iteration order of maps and sets is list order
(insertion order) - ONE of the orders a hash container may produce; properties decided with this model must not depend on the order (stated in the evidence)."""
import re
import z3
from .executor import IntV, BoolV, Agg, Opaque, Ref, NotEncoded, UNIT, Diverge, FnItem, Enter
from .models import some, none


def res(ex, st, v, n=8):
    while isinstance(v, Ref) and n > 0:
        v = ex.read(st, v.fid, v.place)
        n -= 1
    return v


def base_ref(ex, st, r):
    """the innermost reference (a reference whose referent is not itself a reference)"""
    while isinstance(r, Ref) and isinstance(ex.read(st, r.fid, r.place), Ref):
        r = ex.read(st, r.fid, r.place)
    return r


def ckey(ex, st, v):
    """concrete value of a key (machine integer), or None"""
    v = res(ex, st, v)
    if isinstance(v, IntV):
        return ex.concrete(v.t)
    return None


def cmap(entries=()):
    return Agg('struct', '~cmap', None, list(entries))


def cset(elems=()):
    return Agg('struct', '~cset', None, list(elems))


def sym_iter(items):
    """items: [(z3 condition, value)] - yields the values whose condition holds, in order"""
    return Agg('struct', '~sym_iter', None, [Agg('tuple', None, None, [BoolV(c), v]) for c, v in items])


def find(ex, st, container, k):
    kc = ckey(ex, st, k)
    if kc is None:
        raise NotEncoded(f'symbolic key {k!r} into a concrete container')
    for i, e in enumerate(container.fields):
        ek = e.fields[0] if container.name == '~cmap' else e
        if ckey(ex, st, ek) == kc:
            return i
    return None


def install(ex):
    T, F = z3.BoolVal(True), z3.BoolVal(False)

    def recv(st, a, names):
        v = res(ex, st, a)
        return v if isinstance(v, Agg) and v.name in names else None

    def upd(r, new):
        return lambda s2: ex.write(s2, r.fid, r.place, new)

    ex.stub(r'^(std::collections::)?HashMap::<.*>::new$', lambda ex_, st, c, A: cmap(), 'concrete map: new')
    ex.stub(r'^(std::collections::)?HashSet::<.*>::new$', lambda ex_, st, c, A: cset(), 'concrete set: new')

    def m_insert(ex_, st, c, A):
        m = recv(st, A[0], ('~cmap',))
        if m is None:
            return None
        r = base_ref(ex_, st, A[0])
        i = find(ex_, st, m, A[1])
        k, v = res(ex_, st, A[1]), A[2]
        if i is None:
            return [([], none(), upd(r, cmap(list(m.fields) + [Agg('tuple', None, None, [k, v])])))]
        old = m.fields[i].fields[1]
        ents = list(m.fields)
        ents[i] = Agg('tuple', None, None, [m.fields[i].fields[0], v])
        return [([], some(old), upd(r, cmap(ents)))]
    ex.stub(r'HashMap::<.*>::insert$', m_insert, 'concrete map: insert')

    def m_get(ex_, st, c, A):
        m = recv(st, A[0], ('~cmap',))
        if m is None:
            return None
        i = find(ex_, st, m, A[1])
        if i is None:
            return none()
        r = base_ref(ex_, st, A[0])
        return some(Ref(r.fid, ('field', ('field', r.place, i, '?'), 1, '?')))
    ex.stub(r'HashMap::<.*>::(get|get_mut)::<', m_get, 'concrete map: get / get_mut')
    ex.stub(r'HashMap::<.*>::contains_key::<', lambda ex_, st, c, A: (lambda m: None if m is None else BoolV(z3.BoolVal(find(ex_, st, m, A[1]) is not None)))(recv(st, A[0], ('~cmap',))), 'concrete map: contains_key')
    ex.stub(r'HashMap::<.*>::len$', lambda ex_, st, c, A: (lambda m: None if m is None else ex_.const_int(len(m.fields), 'usize'))(recv(st, A[0], ('~cmap',))), 'concrete map: len')

    def m_iter(ex_, st, c, A):
        m = recv(st, A[0], ('~cmap',))
        if m is None:
            return None
        r = base_ref(ex_, st, A[0])
        what = c.rsplit('::', 1)[1]
        ref = lambda i, j: Ref(r.fid, ('field', ('field', r.place, i, '?'), j, '?'))
        if what == 'keys':
            return Agg('struct', '~vec_iter', None, [ref(i, 0) for i in range(len(m.fields))])
        if what in ('values', 'values_mut'):
            return Agg('struct', '~vec_iter', None, [ref(i, 1) for i in range(len(m.fields))])
        return Agg('struct', '~vec_iter', None, [Agg('tuple', None, None, [ref(i, 0), ref(i, 1)]) for i in range(len(m.fields))])
    ex.stub(r'HashMap::<.*>::(keys|values|values_mut|iter)$', m_iter, 'concrete map: keys / values / iter (insertion order)')

    def s_insert(ex_, st, c, A):
        s = recv(st, A[0], ('~cset',))
        if s is None:
            return None
        r = base_ref(ex_, st, A[0])
        if find(ex_, st, s, A[1]) is not None:
            return BoolV(F)
        return [([], BoolV(T), upd(r, cset(list(s.fields) + [res(ex_, st, A[1])])))]
    ex.stub(r'HashSet::<.*>::insert$', s_insert, 'concrete set: insert')
    ex.stub(r'HashSet::<.*>::contains::<', lambda ex_, st, c, A: (lambda s: None if s is None else BoolV(z3.BoolVal(find(ex_, st, s, A[1]) is not None)))(recv(st, A[0], ('~cset',))), 'concrete set: contains')
    ex.stub(r'HashSet::<.*>::(len|is_empty)$', lambda ex_, st, c, A: (lambda s: None if s is None else (ex_.const_int(len(s.fields), 'usize') if c.endswith('len') else BoolV(z3.BoolVal(not s.fields))))(recv(st, A[0], ('~cset',))), 'concrete set: len / is_empty')

    def s_iter(ex_, st, c, A):
        s = recv(st, A[0], ('~cset',))
        if s is None:
            return None
        if isinstance(A[0], Ref):
            r = base_ref(ex_, st, A[0])
            return Agg('struct', '~vec_iter', None, [Ref(r.fid, ('field', r.place, i, '?')) for i in range(len(s.fields))])
        return Agg('struct', '~vec_iter', None, list(s.fields))
    ex.stub(r'HashSet::<.*>::iter$|<&?(std::collections::)?HashSet<.*> as IntoIterator>::into_iter$', s_iter, 'concrete set: iter / into_iter (insertion order)')
    ex.stub(r'<(std::collections::)?HashSet<.*> as Clone>::clone$', lambda ex_, st, c, A: recv(st, A[0], ('~cset',)), 'concrete set: clone')

    def s_extend(ex_, st, c, A):
        s = recv(st, A[0], ('~cset',))
        o = res(ex_, st, A[1])
        if s is None or not (isinstance(o, Agg) and o.name in ('~cset', '~vec', '~vec_iter')):
            return None
        r = base_ref(ex_, st, A[0])
        out = list(s.fields)
        for x in o.fields:
            x = res(ex_, st, x)
            if find(ex_, st, cset(out), x) is None:
                out.append(x)
        return [([], UNIT, upd(r, cset(out)))]
    ex.stub(r'HashSet<.*> as Extend<.*>>::extend::<', s_extend, 'concrete set: extend')

    def collect_set(ex_, st, c, A):
        it = A[0]
        if isinstance(it, Agg) and it.name == '~vec_iter':
            out = []
            for x in it.fields:
                x = res(ex_, st, x)
                if find(ex_, st, cset(out), x) is None:
                    out.append(x)
            return cset(out)
        return None
    ex.stub(r' as Iterator>::collect::<(std::collections::)?HashSet<', collect_set, 'collect into a concrete set')

    # ---- Vec additions (Vec::new / push / pop / deref / into_iter are in the model catalogue)
    def vec(st, a):
        v = res(ex, st, a)
        return v if isinstance(v, Agg) and v.name == '~vec' else None
    ex.stub(r'Vec::<.*>::len$', lambda ex_, st, c, A: (lambda v: None if v is None else ex_.const_int(len(v.fields), 'usize'))(vec(st, A[0])), 'concrete Vec: len')

    ex.stub(r'Vec::<.*>::is_empty$', lambda ex_, st, c, A: (lambda v: None if v is None else BoolV(z3.BoolVal(not v.fields)))(vec(st, A[0])), 'concrete Vec: is_empty')

    def v_extend(ex_, st, c, A):
        v = vec(st, A[0])
        o = res(ex_, st, A[1])
        if v is None or not (isinstance(o, Agg) and o.name in ('~vec', '~vec_iter')):
            return None
        r = base_ref(ex_, st, A[0])
        return [([], UNIT, upd(r, Agg('struct', '~vec', None, list(v.fields) + list(o.fields))))]
    ex.stub(r'<Vec<.*> as Extend<.*>>::extend::<', v_extend, 'concrete Vec: extend with a concrete Vec / iterator')

    def v_index(ex_, st, c, A):
        v = vec(st, A[0])
        if v is None:
            return None
        i = ckey(ex_, st, A[1])
        if i is None:
            raise NotEncoded(f'symbolic index {A[1]!r}')
        if i >= len(v.fields):
            return Diverge(f'index out of bounds: the len is {len(v.fields)} but the index is {i}')
        r = base_ref(ex_, st, A[0])
        return Ref(r.fid, ('field', r.place, i, '?'))
    ex.stub(r'<Vec<.*> as (std::ops::)?Index(Mut)?<usize>>::index(_mut)?$', v_index, 'concrete Vec: v[i] (out of range = panic)')

    def v_split_off(ex_, st, c, A):
        v = vec(st, A[0])
        at = ckey(ex_, st, A[1])
        if v is None or at is None:
            return None
        if at > len(v.fields):
            return Diverge('split_off: `at` out of bounds')
        r = base_ref(ex_, st, A[0])
        return [([], Agg('struct', '~vec', None, list(v.fields[at:])), upd(r, Agg('struct', '~vec', None, list(v.fields[:at]))))]
    ex.stub(r'Vec::<.*>::split_off$', v_split_off, 'concrete Vec: split_off')

    def v_last(ex_, st, c, A):
        v = vec(st, A[0])
        if v is None:
            return None
        if not v.fields:
            return none()
        r = base_ref(ex_, st, A[0])
        return some(Ref(r.fid, ('field', r.place, len(v.fields) - 1, '?')))
    ex.stub(r'slice::<impl \[.*\]>::last$', v_last, 'concrete Vec: last')

    def v_first(ex_, st, c, A):
        v = vec(st, A[0])
        if v is None:
            return None
        if not v.fields:
            return none()
        r = base_ref(ex_, st, A[0])
        return some(Ref(r.fid, ('field', r.place, 0, '?')))
    ex.stub(r'slice::<impl \[.*\]>::first$', v_first, 'concrete Vec: first')

    def v_sort_by(ex_, st, c, A):
        v = vec(st, A[0])
        if v is None:
            return None
        keys = [ckey(ex_, st, x) for x in v.fields]
        if any(k is None for k in keys):
            raise NotEncoded('sort_by over symbolic values')
        clo = res(ex_, st, A[1])
        m = re.search(r'\{closure@([^}]*)\}', getattr(clo, 'name', '') or '')
        bodies = ex_.prog.closure_by_span(m.group(1)) if m else []
        if len(bodies) != 1:
            raise NotEncoded('sort_by comparator not found')
        body = re.sub(r'\s*//[^\n]*', '', bodies[0].text)
        # the comparator must be `|a, b| a.cmp(b)` or `|a, b| b.cmp(a)` on integers: read the argument order of the single cmp call
        mc = re.search(r'Ord>::cmp\((?:copy|move) (_\d+), (?:copy|move) (_\d+)\)', body)
        if not mc or body.count('Ord>::cmp(') != 1:
            raise NotEncoded('sort_by comparator is not a single integer cmp')
        a_local, b_local = bodies[0].args[1][0], bodies[0].args[2][0]
        def origin(loc):
            # follow `_x = copy _y` / deref copies back to a parameter
            for _ in range(6):
                if loc in (a_local, b_local):
                    return loc
                mm = re.search(re.escape(loc) + r' = (?:copy|move) \(?\*?(_\d+)\)?;', body)
                if not mm:
                    return None
                loc = mm.group(1)
            return None
        o1, o2 = origin(mc.group(1)), origin(mc.group(2))
        if {o1, o2} != {a_local, b_local}:
            raise NotEncoded('sort_by comparator shape')
        descending = (o1 == b_local)
        order = sorted(range(len(keys)), key=lambda i: keys[i], reverse=descending)
        r = base_ref(ex_, st, A[0])
        return [([], UNIT, upd(r, Agg('struct', '~vec', None, [v.fields[i] for i in order])))]
    ex.stub(r'slice::<impl \[.*\]>::sort_by::<', v_sort_by, 'concrete Vec<usize>: sort_by with an integer cmp comparator (direction read from the comparator body)')
    ex.stub(r'<Vec<.*> as DerefMut>::deref_mut$', lambda ex_, st, c, A: A[0] if vec(st, A[0]) is not None else None, 'concrete Vec: deref_mut')

    # ---- Range<usize>
    def range_next(ex_, st, c, A):
        r = A[0]
        rg = res(ex_, st, r)
        if not (isinstance(rg, Agg) and len(rg.fields) == 2):
            return None
        lo, hi = ckey(ex_, st, rg.fields[0]), ckey(ex_, st, rg.fields[1])
        if lo is None or hi is None:
            raise NotEncoded('symbolic range')
        if lo >= hi:
            return none()
        b = base_ref(ex_, st, r)
        ty = re.search(r'Range<(\w+)>', c).group(1)
        return [([], some(ex_.const_int(lo, ty)), upd(b, rg.with_field(0, ex_.const_int(lo + 1, ty))))]
    ex.stub(r'<(std::ops::)?Range<[ui](8|16|32|64|size)> as Iterator>::next$', range_next, 'Range<integer>::next on concrete bounds')
    ex.stub(r'<(std::ops::)?Range<[ui](8|16|32|64|size)> as IntoIterator>::into_iter$', lambda ex_, st, c, A: A[0], 'Range::into_iter')

    # ---- iterator with symbolic membership
    def si(st, a):
        v = res(ex, st, a)
        if isinstance(v, Agg) and v.name == 'Box' and len(v.fields) == 1:
            v = res(ex, st, v.fields[0])
        return v if isinstance(v, Agg) and v.name == '~sym_iter' else None

    def si_ref(ex_, st, a):
        """the reference under which the iterator value itself lives (looking through a Box)"""
        r = base_ref(ex_, st, a)
        v = ex_.read(st, r.fid, r.place)
        if isinstance(v, Agg) and v.name == 'Box' and len(v.fields) == 1:
            return Ref(r.fid, ('field', r.place, 0, '?'))
        return r

    def si_next(ex_, st, c, A):
        it = si(st, A[0])
        if it is None:
            return None
        r = si_ref(ex_, st, A[0])
        alts, neg = [], []
        for j, e in enumerate(it.fields):
            cnd, item = e.fields[0].t, e.fields[1]
            rest = Agg('struct', '~sym_iter', None, list(it.fields[j + 1:]))
            alts.append((neg + [cnd], some(item), upd(r, rest)))
            neg = neg + [z3.Not(cnd)]
        alts.append((neg, none(), upd(r, Agg('struct', '~sym_iter', None, []))))
        return alts
    ex.stub(r' as Iterator>::next$', si_next, 'iterator with symbolic membership: next forks on the first member present')
    ex.stub(r' as IntoIterator>::into_iter$', lambda ex_, st, c, A: A[0] if si(st, A[0]) is not None and not isinstance(A[0], Ref) else None, 'iterator with symbolic membership: into_iter')

    def si_chain(ex_, st, c, A):
        a, b = si(st, A[0]), si(st, A[1])
        if a is None or b is None:
            return None
        return Agg('struct', '~sym_iter', None, list(a.fields) + list(b.fields))
    ex.stub(r' as Iterator>::chain::<', si_chain, 'iterator with symbolic membership: chain')

    def si_collect(ex_, st, c, A):
        it = si(st, A[0])
        if it is None:
            return None
        tgt = 'set' if re.search(r'collect::<(std::collections::)?HashSet<', c) else 'vec'
        # membership already decided by the path condition does not fork
        status = []
        for e in it.fields:
            cnd = z3.simplify(e.fields[0].t)
            if z3.is_true(cnd):
                status.append('T')
            elif z3.is_false(cnd):
                status.append('F')
            elif not ex_.feasible(st.pc + [z3.Not(cnd)]):
                status.append('T')
            elif not ex_.feasible(st.pc + [cnd]):
                status.append('F')
            else:
                status.append('U')
        und = [j for j, s_ in enumerate(status) if s_ == 'U']
        alts = []
        for mask in range(1 << len(und)):
            conds, items = [], []
            choice = {j: bool(mask >> k & 1) for k, j in enumerate(und)}
            for j, e in enumerate(it.fields):
                inn = status[j] == 'T' or choice.get(j, False)
                if j in choice:
                    conds.append(e.fields[0].t if inn else z3.Not(e.fields[0].t))
                if inn:
                    items.append(e.fields[1])
            alts.append((conds, Agg('struct', '~vec', None, items) if tgt == 'vec' else cset([res(ex_, st, x) for x in items])))
        return alts
    ex.stub(r' as Iterator>::collect::<', si_collect, 'iterator with symbolic membership: collect forks over the member subsets')

    def si_map(ex_, st, c, A):
        it = si(st, A[0])
        if it is None:
            return None
        f = A[1]
        if isinstance(f, FnItem) and re.search(r' as Clone>::clone$', f.path):
            return Agg('struct', '~sym_iter', None, [Agg('tuple', None, None, [e.fields[0], res(ex_, st, e.fields[1])]) for e in it.fields])
        raise NotEncoded(f'map over an iterator with symbolic membership by {f!r}')
    ex.stub(r' as Iterator>::map::<', si_map, 'iterator with symbolic membership: map(Clone::clone)')
    ex.stub(r' as Iterator>::cloned::<', lambda ex_, st, c, A: (lambda it: None if it is None else Agg('struct', '~sym_iter', None, [Agg('tuple', None, None, [e.fields[0], res(ex_, st, e.fields[1])]) for e in it.fields]))(si(st, A[0])),
            'iterator with symbolic membership: cloned')

    def si_any_all(ex_, st, c, A):
        it = si(st, A[0])
        if it is None:
            return None
        op = re.search(r' as Iterator>::(any|all)::<', c).group(1)
        clo = A[1]
        items = [(e.fields[0].t, e.fields[1]) for e in it.fields]
        if isinstance(A[0], Ref):
            r = si_ref(ex_, st, A[0])
            ex_.write(st, r.fid, r.place, Agg('struct', '~sym_iter', None, []))      # consumed (a short-circuit leaves a suffix nobody may rely on)

        def go(st2, rest, acc):
            if not rest:
                return BoolV(z3.simplify(z3.Or(acc) if op == 'any' else z3.And(acc)) if acc else z3.BoolVal(op == 'all'))
            cnd, val = rest[0]

            def then(st3, rv):
                if not isinstance(rv, BoolV):
                    raise NotEncoded(f'{op} closure returned {rv!r}')
                return go(st3, rest[1:], acc + [z3.And(cnd, rv.t) if op == 'any' else z3.Implies(cnd, rv.t)])
            return ex_.call_closure(st2, clo, [val], then=then)
        return go(st, items, [])
    ex.stub(r' as Iterator>::(any|all)::<', si_any_all, 'iterator with symbolic membership: any / all = disjunction / conjunction over the members present (pure closure)')

    def si_filter(ex_, st, c, A):
        it = si(st, A[0])
        if it is None:
            return None
        clo = A[1]
        items = [(e.fields[0].t, e.fields[1]) for e in it.fields]

        def go(st2, rest, acc):
            if not rest:
                return sym_iter(acc)
            cnd, val = rest[0]

            def then(st3, rv):
                if not isinstance(rv, BoolV):
                    raise NotEncoded(f'filter closure returned {rv!r}')
                return go(st3, rest[1:], acc + [(z3.simplify(z3.And(cnd, rv.t)), val)])
            return ex_.call_closure(st2, clo, [ex_.new_cell(st2, val, 'filter_item')], then=then)
        return go(st, items, [])
    ex.stub(r' as Iterator>::filter::<', si_filter, 'iterator with symbolic membership: filter (pure closure) narrows the membership conditions')

    def si_contains(ex_, st, c, A):
        it = si(st, A[0])
        if it is None:
            return None
        k = ckey(ex_, st, A[1])
        if k is None:
            raise NotEncoded('contains of a symbolic key')
        return BoolV(z3.simplify(z3.Or([e.fields[0].t for e in it.fields if ckey(ex_, st, e.fields[1]) == k] or [F])))
    ex.stub(r' as (itertools::)?Itertools>::contains::<', si_contains, 'iterator with symbolic membership: contains')


def sset(bits):
    """a set over the concrete ids 0..len(bits)-1 with symbolic membership"""
    return Agg('struct', '~sset', None, [BoolV(b) for b in bits])


def install_symbolic_sets(ex, key_cell):
    """HashSet<K> with symbolic membership over concrete ids; key_cell(j) -> Ref to a cell holding id j (for iterators of &K)"""
    T, F = z3.BoolVal(True), z3.BoolVal(False)

    def recv(st, a):
        v = res(ex, st, a)
        return v if isinstance(v, Agg) and v.name == '~sset' else None

    def contains(ex_, st, c, A):
        s = recv(st, A[0])
        k = ckey(ex_, st, A[1])
        if s is None or k is None:
            return None
        return s.fields[k]
    ex.stub(r'HashSet::<.*>::contains::<', contains, 'symbolic set: contains (the membership bit)')

    def insert(ex_, st, c, A):
        s = recv(st, A[0])
        k = ckey(ex_, st, A[1])
        if s is None or k is None:
            return None
        r = base_ref(ex_, st, A[0])
        old = s.fields[k].t
        return [([], BoolV(z3.simplify(z3.Not(old))), lambda s2: ex_.write(s2, r.fid, r.place, s.with_field(k, BoolV(T))))]
    ex.stub(r'HashSet::<.*>::insert$', insert, 'symbolic set: insert')

    def remove(ex_, st, c, A):
        s = recv(st, A[0])
        k = ckey(ex_, st, A[1])
        if s is None or k is None:
            return None
        r = base_ref(ex_, st, A[0])
        old = s.fields[k].t
        return [([], BoolV(old), lambda s2: ex_.write(s2, r.fid, r.place, s.with_field(k, BoolV(F))))]
    ex.stub(r'HashSet::<.*>::remove::<', remove, 'symbolic set: remove')

    def clear(ex_, st, c, A):
        s = recv(st, A[0])
        if s is None:
            return None
        r = base_ref(ex_, st, A[0])
        return [([], UNIT, lambda s2: ex_.write(s2, r.fid, r.place, Agg('struct', '~sset', None, [BoolV(F)] * len(s.fields))))]
    ex.stub(r'HashSet::<.*>::clear$', clear, 'symbolic set: clear')
    ex.stub(r'HashSet::<.*>::iter$|<&(std::collections::)?HashSet<.*> as IntoIterator>::into_iter$',
            lambda ex_, st, c, A: (lambda s: None if s is None else sym_iter([(z3.simplify(b.t), key_cell(j)) for j, b in enumerate(s.fields)]))(recv(st, A[0])), 'symbolic set: iter')
    ex.stub(r'<(std::collections::)?HashSet<.*> as Clone>::clone$', lambda ex_, st, c, A: recv(st, A[0]), 'symbolic set: clone')


def install_eager_filter(ex):
    """filter over a concrete item list evaluated eagerly (forks where the predicate is symbolic); `cloned` over concrete item lists"""
    def flt(ex_, st, c, A):
        it = res(ex_, st, A[0]) if not isinstance(A[0], Agg) else A[0]
        if not (isinstance(it, Agg) and it.name == '~vec_iter'):
            return None
        clo = A[1]

        def go(st2, rest, acc):
            if not rest:
                return Agg('struct', '~vec_iter', None, acc)
            x = rest[0]

            def then(st3, b):
                if not isinstance(b, BoolV):
                    raise NotEncoded(f'filter predicate returned {b!r}')
                t = z3.simplify(b.t)
                if z3.is_true(t):
                    return go(st3, rest[1:], acc + [x])
                if z3.is_false(t):
                    return go(st3, rest[1:], acc)
                return [([t], go(st3, rest[1:], acc + [x])), ([z3.Not(t)], go(st3, rest[1:], acc))]
            return ex_.call_closure(st2, clo, [ex_.new_cell(st2, x, 'filter_item')], then=then)
        return go(st, list(it.fields), [])
    ex.stub(r' as Iterator>::filter::<', flt, 'filter over a concrete item list, evaluated eagerly')
    ex.stub(r' as Iterator>::cloned::<', lambda ex_, st, c, A: Agg('struct', '~vec_iter', None, [res(ex_, st, x) for x in A[0].fields]) if isinstance(A[0], Agg) and A[0].name == '~vec_iter' else None,
            'cloned over a concrete item list')
