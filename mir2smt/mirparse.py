"""Parser for rustc's `-Zunpretty=mir -Zmir-include-spans=on` text dump.

The dump is large (100+ MB); functions are indexed by a single pass over the
text and their bodies are parsed on demand.  Nothing here knows about cedar.
The parser fails closed: a statement or terminator it does not understand is
kept as ('unknown', text) and the executor aborts the obligation when it meets
one (NotEncoded), so an unknown construct can never turn into a pass.
"""
import re, os, hashlib

INT_TY = {'i8': (8, True), 'i16': (16, True), 'i32': (32, True), 'i64': (64, True), 'i128': (128, True),
          'isize': (64, True), 'u8': (8, False), 'u16': (16, False), 'u32': (32, False), 'u64': (64, False),
          'u128': (128, False), 'usize': (64, False)}

BINOPS = {'Add', 'Sub', 'Mul', 'Div', 'Rem', 'Eq', 'Ne', 'Lt', 'Le', 'Gt', 'Ge', 'BitAnd', 'BitOr', 'BitXor',
          'AddWithOverflow', 'SubWithOverflow', 'MulWithOverflow', 'Shl', 'Shr', 'AddUnchecked', 'SubUnchecked',
          'MulUnchecked', 'ShlUnchecked', 'ShrUnchecked', 'Offset', 'Cmp'}
UNOPS = {'Not', 'Neg', 'PtrMetadata'}


class ParseError(Exception):
    pass


def strip_comment(line):
    """remove the span comment rustc appends (` // scope N at file:l:c: l:c`, ` // in scope ..`)"""
    i = line.find(' // ')
    while i != -1:
        tail = line[i + 4:]
        if tail.startswith(('scope ', 'in scope ', 'return place in scope ')):
            return line[:i].rstrip()
        i = line.find(' // ', i + 1)
    return line.rstrip()


def split_top(s, sep=','):
    """split at `sep` outside any bracket / string literal"""
    out, depth, cur, i, n = [], 0, [], 0, len(s)
    while i < n:
        ch = s[i]
        if ch == '"':
            j = i + 1
            while j < n and s[j] != '"':
                j += 2 if s[j] == '\\' else 1
            cur.append(s[i:j + 1]); i = j + 1; continue
        if ch == "'" and i + 2 < n and (s[i + 2] == "'" or (s[i + 1] == '\\')):
            j = s.find("'", i + 2 if s[i + 1] != '\\' else i + 3)
            if j != -1 and j - i <= 12:
                cur.append(s[i:j + 1]); i = j + 1; continue
        if ch in '([{':
            depth += 1
        elif ch in ')]}':
            depth -= 1
        elif ch == '<':
            depth += 1
        elif ch == '>' and not (i > 0 and s[i - 1] in '-='):
            depth -= 1
        if ch == sep and depth == 0:
            out.append(''.join(cur).strip()); cur = []
        else:
            cur.append(ch)
        i += 1
    t = ''.join(cur).strip()
    if t:
        out.append(t)
    return out


def match_paren(s, i):
    """s[i] is an opening bracket; return index of the matching close (brackets of all kinds, strings skipped)"""
    depth, n = 0, len(s)
    j = i
    while j < n:
        ch = s[j]
        if ch == '"':
            j += 1
            while j < n and s[j] != '"':
                j += 2 if s[j] == '\\' else 1
        elif ch in '([{':
            depth += 1
        elif ch in ')]}':
            depth -= 1
            if depth == 0:
                return j
        j += 1
    raise ParseError('unbalanced: ' + s[:80])


# ---------------------------------------------------------------- places

def parse_place(s):
    """returns (place_ast, rest).  place_ast:
       ('local', '_N') | ('deref', p) | ('field', p, idx, ty) | ('downcast', p, variant)
       | ('index', p, '_N') | ('cindex', p, i, from_end) | ('subslice', p, a, b, from_end)"""
    s = s.lstrip()
    if s.startswith('('):
        j = match_paren(s, 0)
        inner = s[1:j]
        rest = s[j + 1:]
        if inner.startswith('*'):
            p, r = parse_place(inner[1:])
            if r.strip():
                raise ParseError('deref rest: ' + s)
            node = ('deref', p)
        else:
            p, r = parse_place(inner)
            m = re.match(r'^ as (\w+)$', r)
            if m:
                node = ('downcast', p, m.group(1))
            else:
                m = re.match(r'^\.(\d+): (.*)$', r, re.S)
                if not m:
                    raise ParseError('place: ' + s)
                node = ('field', p, int(m.group(1)), m.group(2).strip())
    else:
        m = re.match(r'^(_\d+)', s)
        if not m:
            raise ParseError('place: ' + s)
        node = ('local', m.group(1)); rest = s[m.end():]
    while rest.startswith('['):
        j = match_paren(rest, 0)
        idx = rest[1:j]
        m = re.match(r'^(-?)(\d+) of (\d+)$', idx)
        if m:
            node = ('cindex', node, int(m.group(2)), m.group(1) == '-')
        elif re.match(r'^_\d+$', idx):
            node = ('index', node, idx)
        else:
            m = re.match(r'^(\d+):(-?)(\d*)$', idx)
            if not m:
                raise ParseError('index: ' + rest)
            node = ('subslice', node, int(m.group(1)), int(m.group(3) or 0), m.group(2) == '-')
        rest = rest[j + 1:]
    return node, rest


def place_root(p):
    while p[0] != 'local':
        p = p[1]
    return p[1]


# ---------------------------------------------------------------- operands / rvalues

def parse_operand(s):
    s = s.strip()
    if s.startswith('const '):
        return ('const', s[6:].strip())
    for k in ('copy ', 'move '):
        if s.startswith(k):
            p, r = parse_place(s[len(k):])
            if r.strip():
                raise ParseError('operand rest: ' + s)
            return (k.strip(), p)
    # bare path: a function item / constant used as a value
    return ('const', s)


def parse_rvalue(s):
    s = s.strip()
    if s.startswith('no_retag '):
        s = s[len('no_retag '):]
    m = re.match(r'^(.*?) as ((?:unsafe )?(?:extern "[^"]*" )?fn\(.*) \(PointerCoercion\((?:ReifyFnPointer|ClosureFnPointer).*\)$', s, re.S)
    if m and not s.startswith(('copy ', 'move ')):
        t = m.group(1).strip()
        return ('use', ('const', t[6:].strip() if t.startswith('const ') else t))
    m = re.match(r'^(\w+)\(', s)
    if m and (m.group(1) in BINOPS or m.group(1) in UNOPS) and match_paren(s, m.end() - 1) == len(s) - 1:
        parts = split_top(s[m.end():-1])
        if m.group(1) in BINOPS and len(parts) == 2:
            return ('binop', m.group(1), parse_operand(parts[0]), parse_operand(parts[1]))
        if m.group(1) in UNOPS and len(parts) == 1:
            return ('unop', m.group(1), parse_operand(parts[0]))
    m = re.match(r'^(discriminant|Len|CopyForDeref)\((.*)\)$', s)
    if m:
        p, r = parse_place(m.group(2))
        if not r.strip():
            return (m.group(1).lower(), p)
    if s.startswith('&'):
        m = re.match(r'^&(mut |raw const \(fake\) |raw const |raw mut |raw |fake shallow |fake )?(.*)$', s)
        p, r = parse_place(m.group(2))
        if r.strip():
            raise ParseError('ref rest: ' + s)
        return ('ref', p, (m.group(1) or '').strip())
    m = re.match(r'^(.*) as (.+?) \(([A-Za-z]+(?:\(.*\))?(?:, \w+)?)\)$', s, re.S)
    if m and s.startswith(('copy ', 'move ', 'const ')):
        return ('cast', parse_operand(m.group(1)), m.group(2).strip(), m.group(3))
    if s.startswith(('copy ', 'move ', 'const ')):
        return ('use', parse_operand(s))
    if s == '()':
        return ('agg', 'tuple', None, [])
    if s.startswith('(') and match_paren(s, 0) == len(s) - 1:
        return ('agg', 'tuple', None, [parse_operand(x) for x in split_top(s[1:-1])])
    if s.startswith('[') and match_paren(s, 0) == len(s) - 1:
        inner = s[1:-1]
        parts = split_top(inner, ';')
        if len(parts) == 2:
            return ('repeat', parse_operand(parts[0]), parts[1].strip())
        return ('agg', 'array', None, [parse_operand(x) for x in split_top(inner)])
    if s.startswith('{closure@') or s.startswith('{coroutine'):
        j = match_paren(s, 0)
        head, rest = s[:j + 1], s[j + 1:].strip()
        fields = []
        if rest.startswith('{'):
            for f in split_top(rest[1:-1]):
                nm, v = f.split(': ', 1)
                fields.append((nm.strip(), parse_operand(v)))
        return ('closure', head, fields)
    # Path { f: op, .. }   |  Path(op, ..)  |  Path
    if s.endswith('}'):
        i = s.rfind(' {')
        # find the ` {` that opens the trailing brace group
        depth = 0
        for k in range(len(s) - 1, -1, -1):
            if s[k] == '}':
                depth += 1
            elif s[k] == '{':
                depth -= 1
                if depth == 0:
                    break
        head, body = s[:k].strip(), s[k + 1:-1].strip()
        fields = []
        for f in split_top(body):
            nm, v = f.split(': ', 1)
            fields.append((nm.strip(), parse_operand(v)))
        return ('agg', 'struct', head, fields)
    if s.endswith(')'):
        depth = 0
        for k in range(len(s) - 1, -1, -1):
            if s[k] == ')':
                depth += 1
            elif s[k] == '(':
                depth -= 1
                if depth == 0:
                    break
        head = s[:k].strip()
        if head and re.match(r'^[\w:<>,&\' \[\]\(\)\*\{\}@/\.\-#;=+]+$', head):
            return ('agg', 'ctor', head, [parse_operand(x) for x in split_top(s[k + 1:-1])])
    if re.match(r'^[\w:<>,&\' \[\]\(\)\*\{\}@/\.\-#;=+]+$', s):
        return ('agg', 'unit', s, [])
    return ('unknown', s)


def parse_targets(s):
    """`[0: bb4, 1: bb5, otherwise: bb3]` -> list of (key, bb)"""
    out = []
    for t in split_top(s.strip()[1:-1]):
        k, v = t.split(': ')
        out.append((k.strip(), v.strip()))
    return out


def parse_stmt(line):
    try:
        return _parse_stmt(line)
    except (ParseError, ValueError, AttributeError):
        return ('unknown', line)


def _parse_stmt(line):
    s = line.rstrip(';').strip()
    if s.startswith(('StorageLive', 'StorageDead', 'nop', 'FakeRead', 'PlaceMention', 'Retag', 'AscribeUserType',
                     'Coverage', 'ConstEvalCounter', 'BackwardIncompatibleDropHint')):
        return ('nop',)
    if s == 'return':
        return ('return',)
    if s == 'unreachable':
        return ('unreachable',)
    if s.startswith('resume') or s.startswith('terminate') or s == 'abort':
        return ('resume',)
    m = re.match(r'^goto -> (bb\d+)$', s)
    if m:
        return ('goto', m.group(1))
    m = re.match(r'^drop\((.*)\) -> \[return: (bb\d+)', s)
    if m:
        return ('goto', m.group(2))
    m = re.match(r'^drop\((.*)\) -> (bb\d+)', s)
    if m:
        return ('goto', m.group(2))
    m = re.match(r'^falseEdge -> \[real: (bb\d+)', s) or re.match(r'^falseUnwind -> \[real: (bb\d+)', s)
    if m:
        return ('goto', m.group(1))
    m = re.match(r'^switchInt\((.*)\) -> (\[.*\])$', s)
    if m:
        return ('switch', parse_operand(m.group(1)), parse_targets(m.group(2)))
    if s.startswith('assert('):
        j = match_paren(s, 6)
        args = split_top(s[7:j])
        neg = args[0].startswith('!')
        cond = parse_operand(args[0][1:] if neg else args[0])
        m = re.match(r'^ -> \[success: (bb\d+)', s[j + 1:])
        if not m:
            m = re.match(r'^ -> (bb\d+)', s[j + 1:])
        return ('assert', neg, cond, args[1] if len(args) > 1 else '', m.group(1))
    m = re.match(r'^deinit\(|^set_discriminant|^SetDiscriminant', s)
    if m:
        return ('unknown', s)
    # call:  dest = callee(args) -> [return: bbN, unwind ...]   |  dest = callee(args) -> unwind ...
    i = s.find(' = ')
    if i == -1:
        return ('unknown', s)
    try:
        dest, r = parse_place(s[:i])
    except ParseError:
        return ('unknown', s)
    if r.strip():
        return ('unknown', s)
    rhs = s[i + 3:]
    m = re.match(r'^(.*\)) -> (\[return: (bb\d+).*\]|unwind .*|bb\d+)$', rhs, re.S)
    if m:
        body = m.group(1)
        # find the opening paren of the argument list = match of the final ')'
        # (forward scan that skips string literals: `from_str(const ")")` has a parenthesis inside a string)
        stack, k, j, nb = [], None, 0, len(body)
        while j < nb:
            ch = body[j]
            if ch == '"':
                j += 1
                while j < nb and body[j] != '"':
                    j += 2 if body[j] == '\\' else 1
            elif ch == "'" and j + 2 < nb and body[j + 2] == "'" and body[j + 1] != '\\':
                j += 2                                   # a character literal such as '('
            elif ch == "'" and j + 3 < nb and body[j + 1] == '\\' and body[j + 3] == "'":
                j += 3                                   # an escaped character literal
            elif ch == '(':
                stack.append(j)
            elif ch == ')' and stack:
                o = stack.pop()
                if j == nb - 1:
                    k = o
            j += 1
        if k is None:
            depth = 0
            for k in range(len(body) - 1, -1, -1):
                if body[k] == ')':
                    depth += 1
                elif body[k] == '(':
                    depth -= 1
                    if depth == 0:
                        break
        callee = body[:k].strip()
        args = [parse_operand(x) for x in split_top(body[k + 1:-1])]
        nxt = m.group(3)
        if nxt is None:
            mm = re.match(r'^(bb\d+)$', m.group(2))
            nxt = mm.group(1) if mm else None
        return ('call', dest, callee, args, nxt)
    return ('assign', dest, parse_rvalue(rhs))


# ---------------------------------------------------------------- functions

class Func:
    __slots__ = ('name', 'kind', 'args', 'ret', 'locals', 'debug', 'blocks', 'file', 'line', 'text', '_parsed',
                 'promoted_of', 'closure_span')

    def __repr__(self):
        return f'<Func {self.name} @{self.file}:{self.line}>'

    def parsed_block(self, bb):
        if bb not in self._parsed:
            self._parsed[bb] = [parse_stmt(l) for l in self.blocks[bb]]
        return self._parsed[bb]

    def local_of(self, debug_name):
        r = self.debug.get(debug_name)
        if r is None:
            raise KeyError(f'{self.name}: no debug name {debug_name}; have {sorted(self.debug)}')
        return r

    def find_blocks(self, pattern):
        rx = re.compile(pattern)
        return [bb for bb, lines in self.blocks.items() if any(rx.search(l) for l in lines)]

    def find_block(self, pattern):
        r = self.find_blocks(pattern)
        if len(r) != 1:
            raise LookupError(f'{self.name}: block matching /{pattern}/ not unique: {r}')
        return r[0]

    def sha(self):
        return hashlib.sha256(self.text.encode()).hexdigest()[:16]


def _parse_header(head):
    """`fn NAME(ARGS) -> RET {`  ->  name, [(local, ty)], ret"""
    body = head[3:]
    depth, start = 0, None
    i, n = 0, len(body)
    while i < n:
        ch = body[i]
        if ch == '<':
            depth += 1
        elif ch == '>' and not (i > 0 and body[i - 1] == '-'):
            depth -= 1
        elif ch == '{' and body.startswith('{closure', i):
            i = match_paren(body, i)
        elif ch == '(' and depth == 0:
            start = i
            break
        i += 1
    if start is None:
        raise ParseError('header: ' + head)
    j = match_paren(body, start)
    name = body[:start]
    args = []
    for a in split_top(body[start + 1:j]):
        nm, ty = a.split(': ', 1)
        args.append((nm.strip(), ty.strip()))
    rest = body[j + 1:].strip()
    ret = '()'
    m = re.match(r'^-> (.*) \{$', rest, re.S)
    if m:
        ret = m.group(1).strip()
    return name, args, ret


_SPAN = re.compile(r' at ([^\s:]+\.rs):(\d+):(\d+): (\d+):(\d+)')


def _build_func(text):
    lines = text.split('\n')
    head = strip_comment(lines[0])
    f = Func()
    f.text = text
    f._parsed = {}
    f.kind = 'fn'
    f.promoted_of = None
    f.closure_span = None
    f.name, f.args, f.ret = _parse_header(head)
    f.locals, f.debug, f.blocks = {}, {}, {}
    f.file, f.line = None, None
    cur = None
    for raw in lines[1:]:
        st = raw.strip()
        if not st or st.startswith('//'):
            continue
        if f.file is None:
            m = _SPAN.search(raw)
            if m:
                f.file, f.line = m.group(1), int(m.group(2))
        l = strip_comment(raw).strip()
        if cur is None:
            m = re.match(r'^let (?:mut )?(_\d+): (.*);$', l)
            if m:
                f.locals[m.group(1)] = m.group(2); continue
            m = re.match(r'^debug (\S+) => (.*);$', l)
            if m:
                if re.match(r'^_\d+$', m.group(2)) and m.group(1) not in f.debug:
                    f.debug[m.group(1)] = m.group(2)
                continue
        m = re.match(r'^(bb\d+)(?: \(cleanup\))?: \{$', l)
        if m:
            cur = m.group(1); f.blocks[cur] = []; continue
        if l == '}':
            if cur is not None:
                cur = None
            continue
        if cur is not None:
            f.blocks[cur].append(l)
    for a, ty in f.args:
        f.locals.setdefault(a, ty)
    if f.args:
        m = re.search(r'\{closure@([^}]*)\}', f.args[0][1])
        if m and '{closure#' in f.name:
            f.closure_span = m.group(1)
    return f


def _top_colon(h):
    depth = 0
    for i, ch in enumerate(h):
        if ch in '<([{':
            depth += 1
        elif ch in ')]}' or (ch == '>' and h[i - 1] != '-'):
            depth -= 1
        elif ch == ':' and depth == 0 and h[i:i + 2] == ': ':
            return i
    return None


class Program:
    """index over one dump"""

    def __init__(self, path):
        self.path = path
        txt = open(path).read()
        self.sha = hashlib.sha256(txt.encode()).hexdigest()[:16]
        self.text = txt
        self._spans = {}          # name -> list of (start, end)
        self._funcs = {}          # (name, start) -> Func
        self.consts_lit = {}      # name -> literal text
        self._const_bodies = {}   # name -> (start, end)
        starts = [m.start() for m in re.finditer(r'^(?:fn|const|static|promoted\[\d+\] in) ', txt, re.M)]
        starts.append(len(txt))
        for a, b in zip(starts, starts[1:]):
            head_end = txt.find('\n', a)
            head = txt[a:head_end]
            if head.startswith('fn '):
                try:
                    name, _, _ = _parse_header(strip_comment(head))
                except (ParseError, ValueError):
                    continue
                self._spans.setdefault(name, []).append((a, b))
            elif head.startswith(('const ', 'static ')):
                h = strip_comment(head)
                h2 = re.sub(r'^(?:const|static) (?:mut )?', '', h)
                k = _top_colon(h2)
                if k is None:
                    continue
                cname, rest = h2[:k], h2[k + 2:]
                m = re.match(r'^(.*?) = const (.*);$', rest)
                if m:
                    self.consts_lit[cname] = m.group(2); continue
                m = re.match(r'^(.*) = \{$', rest)
                if m:
                    self._const_bodies[cname] = (a, b, m.group(1))
        self.closures = None

    def names(self):
        return self._spans.keys()

    def funcs_named(self, name):
        out = []
        for (a, b) in self._spans.get(name, []):
            k = (name, a)
            if k not in self._funcs:
                self._funcs[k] = _build_func(self.text[a:b].rstrip())
            out.append(self._funcs[k])
        return out

    def find(self, name_regex, file=None):
        rx = re.compile(name_regex)
        out = []
        for n in self._spans:
            if rx.search(n):
                for f in self.funcs_named(n):
                    if file is None or (f.file and f.file.endswith(file)):
                        out.append(f)
        return out

    def find_one(self, name_regex, file=None):
        r = self.find(name_regex, file)
        if len(r) != 1:
            raise LookupError(f'function /{name_regex}/ in {file}: {len(r)} candidates {[x.name for x in r][:6]}')
        return r[0]

    def method(self, file, name, nargs=None, arg0=None, ret=None, closure=False):
        """locate a function by source file + (method) name + signature shape, never by line number"""
        out = []
        for n in self._spans:
            if not (n == name or n.endswith('::' + name)):
                continue
            if ('{closure#' in n) != closure:
                continue
            for f in self.funcs_named(n):
                if not (f.file and f.file.endswith(file)):
                    continue
                if nargs is not None and len(f.args) != nargs:
                    continue
                if arg0 is not None and not (f.args and re.search(arg0, f.args[0][1])):
                    continue
                if ret is not None and not re.search(ret, f.ret):
                    continue
                out.append(f)
        if len(out) > 1 and len({(f.name, tuple(f.args)) for f in out}) == 1:
            out = out[:1]          # `const fn`: runtime MIR + MIR for CTFE
        if len(out) != 1:
            raise LookupError(f'{file}::{name} (nargs={nargs}, arg0={arg0}, ret={ret}): {len(out)} candidates {[x.name for x in out][:5]}')
        return out[0]

    def const_body(self, name):
        """MIR body of a named constant as a Func-like object (no args)"""
        if name not in self._const_bodies:
            return None
        a, b, ty = self._const_bodies[name]
        k = ('const ' + name, a)
        if k not in self._funcs:
            text = self.text[a:b].rstrip()
            fake = 'fn ' + name + '() -> ' + ty + ' {' + text[text.find('\n'):]
            f = _build_func(fake)
            f.kind = 'const'
            self._funcs[k] = f
        return self._funcs[k]

    def closure_by_span(self, span):
        if self.closures is None:
            self.closures = {}
            for n in self._spans:
                if '{closure#' in n:
                    for (a, b) in self._spans[n]:
                        head = self.text[a:self.text.find('\n', a)]
                        m = re.search(r'\(_1: (?:&(?:mut )?)?\{closure@([^}]*)\}', head)
                        if m:
                            self.closures.setdefault(m.group(1), []).append(n)
        names = self.closures.get(span, [])
        out = []
        for n in names:
            out += [f for f in self.funcs_named(n) if f.closure_span == span]
        return out
