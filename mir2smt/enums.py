"""Enum variant tables read from the CURRENT source text of the crate (so a reordered or extended enum changes the
encoding), honouring #[cfg(feature = "...")] on variants for the feature set the MIR dump was made with."""
import os, re


def _strip_comments(src):
    src = re.sub(r'//[^\n]*', '', src)
    src = re.sub(r'/\*.*?\*/', '', src, flags=re.S)
    return src


class EnumIndex:
    def __init__(self, src_dir, features):
        self.src_dir, self.features = src_dir, set(features)
        self.by_name = {}      # enum name -> list of (module path, {variant: disc}, [variants in order])
        self.aliases = {}      # non-generic `type X = Y;` aliases
        for d, _, files in os.walk(src_dir):
            for f in files:
                if f.endswith('.rs'):
                    self._scan(os.path.join(d, f))

    def add_dir(self, src_dir, module_as=None):
        """also index the enums of another crate's sources (types of a dependency that appear in this crate's MIR);
        module_as: the module path under which the files' items are visible (generated code that is `include!`d and re-exported)"""
        keep = self.src_dir
        self.src_dir = src_dir
        self._module_as = module_as
        for d, _, files in os.walk(src_dir):
            for f in files:
                if f.endswith('.rs'):
                    self._scan(os.path.join(d, f))
        self.src_dir = keep
        self._module_as = None

    def _module(self, path):
        if getattr(self, '_module_as', None):
            return self._module_as
        rel = os.path.relpath(path, self.src_dir)[:-3]
        parts = [p for p in rel.split(os.sep) if p not in ('mod', 'lib')]
        return '::'.join(parts)

    def _scan(self, path):
        try:
            src = _strip_comments(open(path).read())
        except OSError:
            return
        for m in re.finditer(r'^\s*(?:pub(?:\([^)]*\))?\s+)?type\s+(\w+)\s*=\s*([\w:]+)\s*;', src, re.M):
            self.aliases.setdefault(m.group(1), m.group(2).split('::')[-1])
        # inline modules (`pub mod x { ... }`, as in prost-generated code): an enum inside belongs to module path + x
        mods = []
        for mm in re.finditer(r'\bmod\s+(\w+)\s*\{', src):
            d, e = 1, mm.end()
            while e < len(src) and d:
                if src[e] == '{':
                    d += 1
                elif src[e] == '}':
                    d -= 1
                e += 1
            mods.append((mm.end(), e, mm.group(1)))
        for m in re.finditer(r'\benum\s+(\w+)\s*(?:<[^{]*>)?\s*(?:where[^{]*)?\{', src):
            name = m.group(1)
            inner = '::'.join(n for a, b, n in mods if a <= m.start() < b)
            i = m.end()
            depth, j = 1, i
            while j < len(src) and depth:
                if src[j] == '{':
                    depth += 1
                elif src[j] == '}':
                    depth -= 1
                j += 1
            body = src[i:j - 1]
            variants = self._variants(body)
            if variants:
                tbl, nxt = {}, 0
                for v, d in variants:
                    if d is not None:
                        nxt = d
                    tbl[v] = nxt
                    nxt += 1
                self.by_name.setdefault(name, []).append((self._module(path) + ('::' + inner if inner else ''), tbl, [v for v, _ in variants]))

    def _variants(self, body):
        # split at top-level commas
        items, depth, cur = [], 0, []
        in_str, prev = False, ''
        for ch in body:
            if in_str:
                # string literals (e.g. #[serde(rename = "<=")]) do not take part in bracket matching
                cur.append(ch)
                if ch == '"' and prev != '\\':
                    in_str = False
                prev = ch
                continue
            if ch == '"':
                in_str = True
                cur.append(ch)
                prev = ch
                continue
            if ch in '([{<':
                depth += 1
            elif ch in ')]}' or (ch == '>' and prev != '-'):
                depth -= 1
            if ch == ',' and depth == 0:
                items.append(''.join(cur)); cur = []
            else:
                cur.append(ch)
            prev = ch
        items.append(''.join(cur))
        out = []
        for it in items:
            it = it.strip()
            if not it:
                continue
            # attributes
            attrs = []
            while it.startswith('#'):
                k = it.index('[')
                d, e = 0, k
                while e < len(it):
                    if it[e] == '[':
                        d += 1
                    elif it[e] == ']':
                        d -= 1
                        if d == 0:
                            break
                    e += 1
                attrs.append(it[k + 1:e])
                it = it[e + 1:].strip()
            skip = False
            for a in attrs:
                m = re.match(r'^cfg\((.*)\)$', a.strip(), re.S)
                if m and not self._cfg(m.group(1).strip()):
                    skip = True
            if skip:
                continue
            m = re.match(r'^(\w+)\s*(?:\(.*\)|\{.*\})?\s*(?:=\s*(-?\d+))?\s*$', it, re.S)
            if not m:
                return None
            out.append((m.group(1), int(m.group(2)) if m.group(2) else None))
        return out

    def _cfg(self, expr):
        m = re.match(r'^feature\s*=\s*"([^"]+)"$', expr)
        if m:
            return m.group(1) in self.features
        m = re.match(r'^not\((.*)\)$', expr, re.S)
        if m:
            return not self._cfg(m.group(1).strip())
        m = re.match(r'^(all|any)\((.*)\)$', expr, re.S)
        if m:
            parts = [p.strip() for p in re.split(r',(?![^()]*\))', m.group(2)) if p.strip()]
            vals = [self._cfg(p) for p in parts]
            return all(vals) if m.group(1) == 'all' else any(vals)
        if expr in ('test', 'kani', 'fuzzing'):
            return False
        return True

    def lookup(self, ty):
        ty = ty.strip()
        while ty.startswith('&'):
            ty = re.sub(r"^&(?:'\w+ )?(?:mut )?", '', ty)
        head = ty.split('<')[0].rstrip(':')
        segs = head.split('::')
        name = segs[-1]
        cands = self.by_name.get(name)
        if not cands:
            return None
        if len(cands) > 1 and len(segs) > 1:
            mod = segs[:-1]
            # the longest suffix of the written module path that some candidate's module path ends with
            for k in range(len(mod), 0, -1):
                c2 = [c for c in cands if c[0].split('::')[-k:] == mod[-k:]]
                if len(c2) >= 1:
                    cands = c2
                    break
            else:
                # re-exported one level up (`ast::Effect` defined in ast::policy): the written path is a prefix of the module path
                for mm in (mod, mod[1:]):       # mod[1:]: the path starts with the name of the crate the sources belong to
                    c2 = [c for c in cands if mm and c[0].split('::')[:len(mm)] == mm]
                    if len(c2) >= 1:
                        cands = c2
                        break
        if len(cands) > 1:
            # identical tables are fine
            if all(c[1] == cands[0][1] for c in cands):
                return cands[0][1]
            return None
        return cands[0][1]
