"""Model catalogue of engine M: bit-precise / shape-precise definitions of the core+std
functions the encoded kernels call.  This file is part of the trusted base; every
arithmetic model is unit-tested against the native function by `selftest.py`.
A model returns: a value | a list of alternatives (conds, value[, effect]) | Enter | Diverge | None (not mine)."""
import re
import z3
from .mirparse import INT_TY, split_top
from .executor import (IntV, BoolV, Agg, Opaque, Ref, StrV, FnItem, UNIT, Enter, Diverge, NotEncoded, rng, base_type,
                       type_args, variant)

T = z3.BoolVal(True)


def some(v, ty=None):
    return Agg('variant', ty or 'Option', 'Some', [v])


def none(ty=None):
    return Agg('variant', ty or 'Option', 'None', [])


def ok(v, ty=None):
    return Agg('variant', ty or 'Result', 'Ok', [v])


def err(v, ty=None):
    return Agg('variant', ty or 'Result', 'Err', [v])


def enum_cases(ex, st, v, names=None):
    """[(cond, variant name, [payload...])] for an Option/Result/ControlFlow-like value"""
    if isinstance(v, Ref):
        v = ex.read(st, v.fid, v.place)
    if isinstance(v, Agg) and v.variant is not None:
        return [(T, v.variant, list(v.fields))]
    if isinstance(v, Opaque):
        b = base_type(v.ty)
        ta = type_args(v.ty)
        if b == 'Option' and ta:
            return [(ex.is_variant(v, 'None'), 'None', []),
                    (ex.is_variant(v, 'Some'), 'Some', [ex.opaque_field(v, 'Some', 0, ta[0], st)])]
        if b == 'Result' and len(ta) == 2:
            return [(ex.is_variant(v, 'Ok'), 'Ok', [ex.opaque_field(v, 'Ok', 0, ta[0], st)]),
                    (ex.is_variant(v, 'Err'), 'Err', [ex.opaque_field(v, 'Err', 0, ta[1], st)])]
        if b == 'ControlFlow' and len(ta) == 2:
            return [(ex.is_variant(v, 'Continue'), 'Continue', [ex.opaque_field(v, 'Continue', 0, ta[1], st)]),
                    (ex.is_variant(v, 'Break'), 'Break', [ex.opaque_field(v, 'Break', 0, ta[0], st)])]
        if b == 'Either' and len(ta) == 2:
            return [(ex.is_variant(v, 'Left'), 'Left', [ex.opaque_field(v, 'Left', 0, ta[0], st)]),
                    (ex.is_variant(v, 'Right'), 'Right', [ex.opaque_field(v, 'Right', 0, ta[1], st)])]
    raise NotEncoded(f'enum cases of {v!r}')


def scalar(ex, st, v):
    if isinstance(v, Ref):
        return scalar(ex, st, ex.read(st, v.fid, v.place))
    return v


def fits(e, ty):
    lo, hi = rng(ty)
    return z3.And(e >= lo, e <= hi)


def callee_generics(callee):
    """generic arguments of the last path segment: `Option::<i64>::map::<U, F>` -> ['U','F']"""
    m = re.search(r'::<(.*)>$', callee)
    if not m:
        return []
    # take the last top-level ::<...>
    depth, i = 0, len(callee) - 1
    while i >= 0:
        if callee[i] == '>' and callee[i - 1] != '-':
            depth += 1
        elif callee[i] == '<':
            depth -= 1
            if depth == 0:
                break
        i -= 1
    return split_top(callee[i + 1:-1])


# ------------------------------------------------------------------ integer methods

def m_int(ex, st, callee, A):
    m = re.search(r'<impl (i8|i16|i32|i64|i128|isize|u8|u16|u32|u64|u128|usize)>::(\w+)$', callee)
    if not m:
        return None
    ty, fn = m.group(1), m.group(2)
    lo, hi = rng(ty)
    w, sg = INT_TY[ty]
    A = [scalar(ex, st, a) for a in A]
    if ex.mode == 'bv':
        return m_int_bv(ex, st, ty, fn, A)
    x = A[0].t if A and isinstance(A[0], IntV) else None
    y = A[1].t if len(A) > 1 and isinstance(A[1], IntV) else None
    I = lambda e: IntV(e, ty)
    if fn in ('checked_add', 'checked_sub', 'checked_mul'):
        e = {'checked_add': x + y, 'checked_sub': x - y, 'checked_mul': x * y}[fn]
        return [([fits(e, ty)], some(I(e))), ([z3.Not(fits(e, ty))], none())]
    if fn == 'checked_neg':
        e = -x
        return [([fits(e, ty)], some(I(e))), ([z3.Not(fits(e, ty))], none())]
    if fn in ('wrapping_add', 'wrapping_sub', 'wrapping_mul'):
        e = {'wrapping_add': x + y, 'wrapping_sub': x - y, 'wrapping_mul': x * y}[fn]
        return I(ex.wrap(e, ty))
    if fn == 'wrapping_neg':
        return I(ex.wrap(-x, ty))
    if fn in ('overflowing_add', 'overflowing_sub', 'overflowing_mul'):
        e = {'overflowing_add': x + y, 'overflowing_sub': x - y, 'overflowing_mul': x * y}[fn]
        return Agg('tuple', None, None, [I(ex.wrap(e, ty)), BoolV(z3.Not(fits(e, ty)))])
    if fn in ('saturating_add', 'saturating_sub', 'saturating_mul'):
        e = {'saturating_add': x + y, 'saturating_sub': x - y, 'saturating_mul': x * y}[fn]
        return I(z3.If(e < lo, lo, z3.If(e > hi, hi, e)))
    if fn in ('checked_div', 'checked_rem', 'checked_div_euclid', 'checked_rem_euclid'):
        bad = z3.Or(y == 0, z3.And(x == lo, y == -1)) if sg else (y == 0)
        q, r = ex.divrem(x, y)
        if fn == 'checked_div':
            res = q
        elif fn == 'checked_rem':
            res = r
        elif fn == 'checked_rem_euclid':
            res = z3.If(r < 0, z3.If(y < 0, r - y, r + y), r)
        else:
            res = z3.If(r < 0, z3.If(y > 0, q - 1, q + 1), q)
        return [([z3.Not(bad)], some(I(res))), ([bad], none())]
    if fn in ('rem_euclid', 'div_euclid'):
        bad = z3.Or(y == 0, z3.And(x == lo, y == -1)) if sg else (y == 0)
        q, r = ex.divrem(x, y)
        res = z3.If(r < 0, z3.If(y < 0, r - y, r + y), r) if fn == 'rem_euclid' else z3.If(r < 0, z3.If(y > 0, q - 1, q + 1), q)
        return [([z3.Not(bad)], I(res)), ([bad], Diverge(f'{ty}::{fn}: division by zero / overflow'))]
    if fn == 'checked_pow':
        # exponent must be concrete or small; base arbitrary
        c = ex.concrete(y)
        if c is None:
            alts = []
            rest = []
            for k in range(0, 20):
                e = x
                p = z3.IntVal(1)
                for _ in range(k):
                    p = p * x
                alts.append(([y == k, fits(p, ty)], some(I(p))))
                alts.append(([y == k, z3.Not(fits(p, ty))], none()))
                rest.append(y != k)
            alts.append((rest, Diverge('checked_pow: exponent >= 20 outside the model (stated bound)')))
            return alts
        p = z3.IntVal(1)
        for _ in range(c):
            p = p * x
        return [([fits(p, ty)], some(I(p))), ([z3.Not(fits(p, ty))], none())]
    if fn == 'pow':
        c = ex.concrete(y)
        if c is not None and c <= 40:
            p = z3.IntVal(1)
            for _ in range(c):
                p = p * x
            return [([fits(p, ty)], I(p)), ([z3.Not(fits(p, ty))], Diverge(f'{ty}::pow overflow'))]
    if fn == 'is_negative':
        return BoolV(x < 0)
    if fn == 'is_positive':
        return BoolV(x > 0)
    if fn == 'signum':
        return I(z3.If(x < 0, -1, z3.If(x == 0, 0, 1)))
    if fn == 'abs':
        return [([x != lo], I(z3.If(x < 0, -x, x))), ([x == lo], Diverge(f'{ty}::abs overflow'))]
    if fn == 'unsigned_abs':
        return IntV(z3.If(x < 0, -x, x), 'u' + ty[1:])
    if fn == 'checked_abs':
        return [([x != lo], some(I(z3.If(x < 0, -x, x)))), ([x == lo], none())]
    if fn == 'abs_diff':
        return IntV(z3.If(x < y, y - x, x - y), ('u' + ty[1:]) if sg else ty)
    if fn in ('checked_shl', 'checked_shr'):
        c = ex.concrete(y)
        alts = [([y >= w], none())]
        if c is not None:
            if c >= w:
                return none()
            r = ex.binop('Shl' if fn == 'checked_shl' else 'Shr', A[0], A[1])
            return some(r)
        if w <= 128 and ex.concrete(x) is not None:
            cx = ex.concrete(x)
            for k in range(w):
                if fn == 'checked_shl':
                    v = (cx << k) & ((1 << w) - 1)
                    if sg and v >= (1 << (w - 1)):
                        v -= (1 << w)
                else:
                    v = cx >> k
                alts.append(([y == k], some(I(z3.IntVal(v)))))
            return alts
        raise NotEncoded(f'{fn} with symbolic value and shift in Int mode')
    if fn in ('min_value', 'max_value'):
        return I(z3.IntVal(lo if fn == 'min_value' else hi))
    if fn in ('count_ones', 'leading_zeros', 'trailing_zeros'):
        raise NotEncoded(f'{ty}::{fn} in Int mode')
    return None


def m_int_bv(ex, st, ty, fn, A):
    w, sg = INT_TY[ty]
    x = A[0].t if A else None
    y = A[1].t if len(A) > 1 and isinstance(A[1], IntV) else None
    I = lambda e: IntV(e, ty)
    if fn in ('checked_add', 'checked_sub', 'checked_mul'):
        op = {'checked_add': 'AddWithOverflow', 'checked_sub': 'SubWithOverflow', 'checked_mul': 'MulWithOverflow'}[fn]
        r = ex.binop_bv(op, A[0], A[1], ty)
        return [([z3.Not(r.fields[1].t)], some(r.fields[0])), ([r.fields[1].t], none())]
    if fn in ('wrapping_add', 'wrapping_sub', 'wrapping_mul'):
        return ex.binop_bv({'wrapping_add': 'Add', 'wrapping_sub': 'Sub', 'wrapping_mul': 'Mul'}[fn], A[0], A[1], ty)
    if fn in ('checked_shl', 'checked_shr'):
        ys = y
        big = z3.UGE(ys, z3.BitVecVal(w, ys.size()))
        r = ex.binop_bv('Shl' if fn == 'checked_shl' else 'Shr', A[0], A[1], ty)
        return [([z3.Not(big)], some(r)), ([big], none())]
    if fn == 'is_negative':
        return BoolV(x < 0)
    if fn in ('wrapping_shl', 'wrapping_shr'):
        return ex.binop_bv('Shl' if fn == 'wrapping_shl' else 'Shr', A[0], A[1], ty)      # shift amount is masked to the width
    if fn in ('checked_neg', 'wrapping_neg', 'saturating_sub', 'saturating_add', 'leading_zeros', 'trailing_zeros', 'count_ones', 'pow', 'checked_pow'):
        raise NotEncoded(f'{ty}::{fn} in BV mode')
    return None


def m_int_cmp(ex, st, callee, A):
    m = re.search(r'^<&*(i8|i16|i32|i64|i128|isize|u8|u16|u32|u64|u128|usize|bool|char) as (?:std::cmp::|core::cmp::)?(PartialOrd|PartialEq|Ord)(?:<[^>]*>)?>::(\w+)$', callee)
    if not m:
        m2 = re.search(r'^(?:std|core)::cmp::impls::<impl (?:std::cmp::|core::cmp::)?(PartialOrd|PartialEq|Ord)(?:<[^>]*>)? for (\w+)>::(\w+)$', callee)
        if not m2:
            return None
        ty, fn = m2.group(2), m2.group(3)
    else:
        ty, fn = m.group(1), m.group(3)
    a, b = scalar(ex, st, A[0]), scalar(ex, st, A[1])
    op = {'lt': 'Lt', 'le': 'Le', 'gt': 'Gt', 'ge': 'Ge', 'eq': 'Eq', 'ne': 'Ne'}.get(fn)
    if op:
        return ex.binop(op, a, b)
    if fn in ('max', 'min') and isinstance(a, IntV):
        c = ex.binop('Ge' if fn == 'max' else 'Le', a, b).t
        return IntV(z3.If(c, a.t, b.t), a.ty)
    if fn in ('cmp', 'partial_cmp') and isinstance(a, IntV):
        lt, eq = ex.binop('Lt', a, b).t, ex.binop('Eq', a, b).t
        w = (lambda v: some(v)) if fn == 'partial_cmp' else (lambda v: v)
        return [([lt], w(Agg('variant', 'std::cmp::Ordering', 'Less', []))), ([eq], w(Agg('variant', 'std::cmp::Ordering', 'Equal', []))),
                ([z3.Not(lt), z3.Not(eq)], w(Agg('variant', 'std::cmp::Ordering', 'Greater', [])))]
    return None


def m_partial_ord(ex, st, callee, A):
    """std's provided methods of PartialOrd / Ord / the impls for references, for crate types whose partial_cmp / cmp is in the dump"""
    mo = re.match(r'^<(.*) as (?:std::cmp::)?Ord>::(max|min)$', callee)
    if mo and mo.group(1) not in INT_TY:
        r = ex.resolve(f'<{mo.group(1)} as Ord>::cmp', [A[0], A[1]])
        if r is None:
            return None
        a, b = A[0], A[1]
        ca, cb = ex.new_cell(st, a, 'max_a'), ex.new_cell(st, b, 'max_b')

        def then_mm(st2, v, fn=mo.group(2)):
            if not (isinstance(v, Agg) and v.variant in ('Less', 'Equal', 'Greater')):
                raise NotEncoded(f'cmp result {v!r}')
            if fn == 'max':
                return a if v.variant == 'Greater' else b          # std: max returns `other` unless self > other
            return b if v.variant == 'Greater' else a
        return Enter(r[0], [ca, cb], then_mm, r[1])
    m = re.match(r'^<(&*)(.*) as (?:std::cmp::)?PartialOrd(?:<.*>)?>::(lt|le|gt|ge)$', callee)
    if not m or m.group(2) in INT_TY or m.group(2) in ('bool', 'char'):
        return None
    ty, fn = m.group(2), m.group(3)
    a, b = A[0], A[1]
    for _ in range(len(m.group(1))):
        a, b = ex.read(st, a.fid, a.place), ex.read(st, b.fid, b.place)
    r = ex.resolve(f'<{ty} as PartialOrd>::partial_cmp', [a, b])
    if r is None:
        return None
    want = {'lt': ('Less',), 'le': ('Less', 'Equal'), 'gt': ('Greater',), 'ge': ('Greater', 'Equal')}[fn]

    def then(st2, v):
        if isinstance(v, Agg) and v.variant == 'Some' and isinstance(v.fields[0], Agg) and v.fields[0].variant in ('Less', 'Equal', 'Greater'):
            return BoolV(z3.BoolVal(v.fields[0].variant in want))
        if isinstance(v, Agg) and v.variant == 'None':
            return BoolV(z3.BoolVal(False))
        raise NotEncoded(f'partial_cmp result {v!r}')
    return Enter(r[0], [a, b], then, r[1])


def m_int_conv(ex, st, callee, A):
    m = re.search(r'^<(\w+) as (?:From|std::convert::From)<(\w+)>>::from$', callee)
    if m and m.group(1) in INT_TY and (m.group(2) in INT_TY or m.group(2) in ('bool', 'char')):
        return ex.cast_int(scalar(ex, st, A[0]), m.group(1))
    m = re.search(r'^<(\w+) as (?:Into|std::convert::Into)<(\w+)>>::into$', callee)
    if m and m.group(2) in INT_TY and (m.group(1) in INT_TY or m.group(1) in ('bool', 'char')):
        return ex.cast_int(scalar(ex, st, A[0]), m.group(2))
    m = re.search(r'^<(\w+) as (?:TryFrom|std::convert::TryFrom)<(\w+)>>::try_from$', callee) or None
    src = dst = None
    if m and m.group(1) in INT_TY and m.group(2) in INT_TY:
        dst, src = m.group(1), m.group(2)
    m = re.search(r'^<(\w+) as (?:TryInto|std::convert::TryInto)<(\w+)>>::try_into$', callee)
    if m and m.group(1) in INT_TY and m.group(2) in INT_TY:
        src, dst = m.group(1), m.group(2)
    if dst and ex.mode != 'bv':
        v = scalar(ex, st, A[0])
        okc = fits(v.t, dst)
        return [([okc], ok(IntV(v.t, dst))), ([z3.Not(okc)], err(Opaque('TryFromIntError')))]
    return None


# ------------------------------------------------------------------ Option / Result plumbing

def m_try(ex, st, callee, A):
    if callee.endswith(' as Try>::branch') or callee.endswith('Try>::branch'):
        alts = []
        for cond, name, pay in enum_cases(ex, st, A[0]):
            if name in ('Some', 'Ok'):
                alts.append(([cond], Agg('variant', 'ControlFlow', 'Continue', [pay[0]])))
            elif name == 'None':
                alts.append(([cond], Agg('variant', 'ControlFlow', 'Break', [none()])))
            elif name == 'Err':
                alts.append(([cond], Agg('variant', 'ControlFlow', 'Break', [err(pay[0])])))
            else:
                raise NotEncoded(f'Try::branch on {name}')
        return alts
    if 'FromResidual' in callee and callee.endswith('::from_residual'):
        m = re.match(r'^<(.*) as FromResidual<(.*)>>::from_residual$', callee)
        alts = []
        for cond, name, pay in enum_cases(ex, st, A[0]):
            if name == 'None':
                alts.append(([cond], none()))
            elif name == 'Err':
                tgt, src = (m.group(1), m.group(2)) if m else (None, None)
                te = type_args(tgt)[1] if tgt and len(type_args(tgt)) == 2 else None
                se = type_args(src)[1] if src and len(type_args(src)) == 2 else None
                if te is not None and se is not None and base_type(te) != base_type(se):
                    conv = ex.dispatch(st, f'<{te} as From<{se}>>::from', [pay[0]])
                    if isinstance(conv, (Enter, Diverge)) or (isinstance(conv, list)):
                        if isinstance(conv, Enter) and conv.then is None:
                            return Enter(conv.func, conv.args, lambda s, v: err(v), conv.subst)
                        if isinstance(conv, list):
                            return [(list(c[0]) + [cond], err(c[1])) + tuple(c[2:]) for c in conv]
                        raise NotEncoded('from_residual conversion')
                    alts.append(([cond], err(conv)))
                else:
                    alts.append(([cond], err(pay[0])))
            else:
                raise NotEncoded(f'from_residual on {name}')
        return alts
    if callee.endswith('Try>::from_output'):
        m = re.match(r'^<(.*) as Try>::from_output$', callee)
        b = base_type(m.group(1)) if m else None
        if b == 'Option':
            return some(A[0])
        if b == 'Result':
            return ok(A[0])
    return None


def _then_wrap(wrapper):
    return lambda st, v: wrapper(v)


def m_option(ex, st, callee, A):
    m = re.match(r'^(?:std::option::|core::option::)?Option::<(.*?)>::(\w+)(?:::<.*>)?$', callee)
    if not m:
        return None
    fn = m.group(2)
    if fn == 'as_slice':
        o = A[0]
        v = ex.read(st, o.fid, o.place) if isinstance(o, Ref) else o
        if isinstance(v, Agg) and v.variant == 'None':
            return Agg('struct', '~vec', None, [])
        if isinstance(v, Agg) and v.variant == 'Some':
            return Agg('struct', '~vec', None, [v.fields[0]])
        return None
    cases = None
    def C():
        return enum_cases(ex, st, A[0])
    if fn == 'map':
        alts = []
        for cond, name, pay in C():
            if name == 'None':
                alts.append(([cond], none()))
            else:
                r = ex.call_closure(st, A[1], [pay[0]], then=_then_wrap(some))
                alts.append(([cond], r))
        return _flatten(ex, alts)
    if fn == 'and_then':
        alts = []
        for cond, name, pay in C():
            alts.append(([cond], none()) if name == 'None' else ([cond], ex.call_closure(st, A[1], [pay[0]])))
        return _flatten(ex, alts)
    if fn == 'filter':
        alts = []
        for cond, name, pay in C():
            if name == 'None':
                alts.append(([cond], none()))
            else:
                def then(st3, rv, pay=pay):
                    if not isinstance(rv, BoolV):
                        raise NotEncoded(f'Option::filter closure returned {rv!r}')
                    return [([rv.t], some(pay[0])), ([z3.Not(rv.t)], none())]
                alts.append(([cond], ex.call_closure(st, A[1], [ex.new_cell(st, pay[0], 'filter_arg')], then=then)))
        return _flatten(ex, alts)
    if fn == 'transpose':
        alts = []
        for cond, name, pay in C():
            if name == 'None':
                alts.append(([cond], ok(none())))
            else:
                for c2, n2, p2 in enum_cases(ex, st, pay[0]):
                    alts.append(([cond, c2], ok(some(p2[0])) if n2 == 'Ok' else err(p2[0])))
        return alts
    if fn == 'ok_or':
        return [([c], err(A[1]) if n == 'None' else ok(p[0])) for c, n, p in C()]
    if fn == 'ok_or_else':
        alts = []
        for cond, name, pay in C():
            alts.append(([cond], ok(pay[0])) if name == 'Some' else ([cond], ex.call_closure(st, A[1], [], then=_then_wrap(err))))
        return _flatten(ex, alts)
    if fn == 'unwrap_or':
        return [([c], A[1] if n == 'None' else p[0]) for c, n, p in C()]
    if fn == 'unwrap_or_default':
        tys = m.group(1)
        if tys in INT_TY:
            return [([c], ex.const_int(0, tys) if n == 'None' else p[0]) for c, n, p in C()]
    if fn == 'unwrap_or_else':
        alts = []
        for cond, name, pay in C():
            alts.append(([cond], pay[0]) if name == 'Some' else ([cond], ex.call_closure(st, A[1], [])))
        return _flatten(ex, alts)
    if fn in ('unwrap', 'expect'):
        return [([c], p[0] if n == 'Some' else Diverge(f'Option::{fn} on None')) for c, n, p in C()]
    if fn in ('is_some', 'is_none'):
        cs = C()
        cond = z3.Or([c for c, n, p in cs if (n == 'Some') == (fn == 'is_some')] or [z3.BoolVal(False)])
        return BoolV(z3.simplify(cond))
    if fn == 'ok':
        return None
    if fn == 'map_or':
        alts = []
        for cond, name, pay in C():
            alts.append(([cond], A[1]) if name == 'None' else ([cond], ex.call_closure(st, A[2], [pay[0]])))
        return _flatten(ex, alts)
    if fn == 'map_or_else':
        alts = []
        for cond, name, pay in C():
            alts.append(([cond], ex.call_closure(st, A[1], [])) if name == 'None' else ([cond], ex.call_closure(st, A[2], [pay[0]])))
        return _flatten(ex, alts)
    if fn == 'as_ref' or fn == 'as_mut':
        r = A[0]
        if isinstance(r, Ref):
            v = ex.read(st, r.fid, r.place)
            if isinstance(v, Agg):
                if v.variant == 'None':
                    return none()
                return some(Ref(r.fid, ('field', ('downcast', r.place, 'Some'), 0, '?')))
            if isinstance(v, Opaque):
                ta = type_args(v.ty)
                return [([ex.is_variant(v, 'None')], none()),
                        ([ex.is_variant(v, 'Some')], some(Ref(r.fid, ('field', ('downcast', r.place, 'Some'), 0, ta[0] if ta else '?'))))]
    if fn in ('cloned', 'copied'):
        alts = []
        for cond, name, pay in C():
            alts.append(([cond], none()) if name == 'None' else ([cond], some(scalar(ex, st, pay[0]))))
        return alts
    if fn == 'is_some_and' or fn == 'is_none_or':
        alts = []
        for cond, name, pay in C():
            if name == 'None':
                alts.append(([cond], BoolV(z3.BoolVal(fn == 'is_none_or'))))
            else:
                alts.append(([cond], ex.call_closure(st, A[1], [pay[0]])))
        return _flatten(ex, alts)
    return None


def m_result(ex, st, callee, A):
    m = re.match(r'^(?:std::result::|core::result::)?Result::<(.*?)>::(\w+)(?:::<.*>)?$', callee)
    if not m:
        return None
    fn = m.group(2)
    def C():
        return enum_cases(ex, st, A[0])
    if fn == 'map':
        alts = []
        for cond, name, pay in C():
            alts.append(([cond], err(pay[0])) if name == 'Err' else ([cond], ex.call_closure(st, A[1], [pay[0]], then=_then_wrap(ok))))
        return _flatten(ex, alts)
    if fn == 'map_err':
        alts = []
        for cond, name, pay in C():
            alts.append(([cond], ok(pay[0])) if name == 'Ok' else ([cond], ex.call_closure(st, A[1], [pay[0]], then=_then_wrap(err))))
        return _flatten(ex, alts)
    if fn == 'and_then':
        alts = []
        for cond, name, pay in C():
            alts.append(([cond], err(pay[0])) if name == 'Err' else ([cond], ex.call_closure(st, A[1], [pay[0]])))
        return _flatten(ex, alts)
    if fn == 'ok':
        return [([c], some(p[0]) if n == 'Ok' else none()) for c, n, p in C()]
    if fn == 'err':
        return [([c], some(p[0]) if n == 'Err' else none()) for c, n, p in C()]
    if fn in ('is_ok', 'is_err'):
        cs = C()
        return BoolV(z3.simplify(z3.Or([c for c, n, p in cs if (n == 'Ok') == (fn == 'is_ok')] or [z3.BoolVal(False)])))
    if fn in ('unwrap', 'expect'):
        return [([c], p[0] if n == 'Ok' else Diverge(f'Result::{fn} on Err')) for c, n, p in C()]
    if fn == 'unwrap_or':
        return [([c], p[0] if n == 'Ok' else A[1]) for c, n, p in C()]
    if fn == 'unwrap_or_else':
        alts = []
        for cond, name, pay in C():
            alts.append(([cond], pay[0]) if name == 'Ok' else ([cond], ex.call_closure(st, A[1], [pay[0]])))
        return _flatten(ex, alts)
    if fn == 'map_or_else':
        alts = []
        for cond, name, pay in C():
            alts.append(([cond], ex.call_closure(st, A[1], [pay[0]])) if name == 'Err' else ([cond], ex.call_closure(st, A[2], [pay[0]])))
        return _flatten(ex, alts)
    if fn in ('cloned', 'copied'):
        return [([c], ok(scalar(ex, st, p[0])) if n == 'Ok' else err(p[0])) for c, n, p in C()]
    if fn == 'as_ref':
        r = A[0]
        if isinstance(r, Ref):
            v = ex.read(st, r.fid, r.place)
            out = []
            for cond, name, pay in enum_cases(ex, st, v):
                mk = ok if name == 'Ok' else err
                out.append(([cond], mk(Ref(r.fid, ('field', ('downcast', r.place, name), 0, '?')))))
            return out
    return None


def _flatten(ex, alts):
    """alts: list of (conds, value | Enter | list-of-alts | Diverge).  At most one Enter may be live per alternative;
    alternatives that are Enter are returned as forks whose value is an Enter marker handled by the executor."""
    out = []
    for conds, v in alts:
        if isinstance(v, list):
            for a in v:
                out.append((list(conds) + list(a[0]), a[1]) + tuple(a[2:]))
        else:
            out.append((conds, v))
    return out


# ------------------------------------------------------------------ misc std

def _deep_repr(ex, st, v, depth=5):
    """label of a formatted value: references are followed so that the label names the displayed objects"""
    try:
        while isinstance(v, Ref) and depth > 0:
            v = ex.read(st, v.fid, v.place)
            depth -= 1
    except Exception:
        return repr(v)
    if isinstance(v, Opaque):
        return v.what if v.ty == 'fmt::Arguments' else repr(v)
    if isinstance(v, Agg) and depth > 0 and v.kind in ('array', 'tuple', 'struct') and len(v.fields) <= 6:
        return '[' + ' '.join(_deep_repr(ex, st, x, depth - 1) for x in v.fields) + ']'
    return repr(v)


def m_misc(ex, st, callee, A):
    if re.search(r'(^|::)panicking::(panic\w*|assert_failed\w*|unreachable_display)$', callee) or callee.endswith('::panic_fmt') or callee in ('panic_fmt', 'panic', 'panic_display', 'unreachable_display', 'assert_failed') \
            or 'begin_panic' in callee or callee.endswith('::panic_display') or re.search(r'rt::panic_\w+$', callee) \
            or callee.endswith('::panic_cold_explicit') or callee.endswith('option::expect_failed') or callee.endswith('result::unwrap_failed'):
        msg = ' '.join(repr(a) for a in A)[:200]
        return Diverge(f'{callee.split("::")[-1]}: {msg}')
    if re.match(r"^(?:std::fmt::|core::fmt::)?Arguments::<'_>::\w+", callee) or callee.startswith('core::fmt::rt::') \
            or re.match(r'^(?:std|core)::fmt::rt::Argument', callee):
        return Opaque('fmt::Arguments', 'fmt:' + ' '.join(_deep_repr(ex, st, a) for a in A)[:400])
    if re.match(r'^<(.*) as Into<(.*)>>::into$', callee):
        m = re.match(r'^<(.*) as Into<(.*)>>::into$', callee)
        s, t = m.group(1).strip(), m.group(2).strip()
        if s == t:
            return A[0]
        if base_type(s) == base_type(t) and type_args(s) == type_args(t):
            # the same type written with two paths - unless they are two types of the same NAME in different modules with a conversion between them
            # (ast::PatternElem / est::PatternElem): then the crate has a From impl for exactly this pair
            if '::' in s and '::' in t and s.split('<')[0] != t.split('<')[0]:
                callee2 = f'<{t} as From<{s}>>::from'
                try:
                    rs = ex.resolve(callee2, A)
                except NotEncoded:
                    rs = None
                if rs is not None or any(rx.search(callee2) for rx, _, _ in ex.stubs):
                    return ex.dispatch(st, callee2, A)
            return A[0]
        return ex.dispatch(st, f'<{t} as From<{s}>>::from', A)
    m = re.match(r'^<(.*) as From<(.*)>>::from$', callee)
    if m and (m.group(1).strip() == m.group(2).strip()):
        return A[0]
    if m and re.match(r'^impl Into<(.*)>$', m.group(2).strip()) and base_type(re.match(r'^impl Into<(.*)>$', m.group(2).strip()).group(1)) == base_type(m.group(1)) \
            and isinstance(A[0], Agg) and A[0].name and base_type(A[0].name) == base_type(m.group(1)):
        return A[0]          # `op.into()` on an anonymous `impl Into<T>` parameter instantiated with T itself
    if m and base_type(m.group(1)) in ex.from_wrappers and ex.resolve(callee, A) is None:
        # derive-generated (thiserror #[from]) conversion: the target wraps the source value unchanged
        ex.stats['stubbed'].add(f'From-wrapper:{base_type(m.group(1))}<-{base_type(m.group(2))}')
        return Agg('struct', m.group(1).strip(), None, [A[0]], ('from:' + base_type(m.group(2)),))
    if re.search(r'slice::<impl \[.*\]>::to_vec$', callee) and isinstance(A[0], Agg) and A[0].name == '~vec':
        return A[0]
    if re.search(r' as (Clone>::clone|ToOwned>::to_owned)$', callee) or re.search(r'clone::impls::<impl Clone for \w+>::clone$', callee):
        v = A[0]
        if isinstance(v, Ref):
            return ex.read(st, v.fid, v.place)
        if isinstance(v, Opaque):
            return ex.deref(st, v)
        return v
    if re.search(r'^(?:std::sync::|alloc::sync::)?Arc::<.*>::new$', callee) or re.search(r'^(?:std::boxed::|alloc::boxed::)?Box::<.*>::new$', callee) \
            or re.search(r'^(?:std::rc::)?Rc::<.*>::new$', callee):
        return Agg('struct', callee.split('::<')[0].split('::')[-1], None, [A[0]], ('inner',))
    if re.search(r'^(?:std::sync::|alloc::sync::)?Arc::<.*>::unwrap_or_clone$', callee) and isinstance(A[0], Agg) and A[0].name == 'Arc' and len(A[0].fields) == 1:
        return A[0].fields[0]
    m = re.match(r'^<(?:std::sync::|std::boxed::|std::rc::)?(Arc|Box|Rc)<(.*)> as (?:std::ops::)?Deref(?:Mut)?>::deref(?:_mut)?$', callee)
    if m or re.match(r'^<(?:std::sync::)?Arc<.*> as AsRef<.*>>::as_ref$', callee):
        r = A[0]
        if isinstance(r, Ref):
            v = ex.read(st, r.fid, r.place)
            if isinstance(v, Agg) and v.kind == 'struct' and v.name in ('Arc', 'Box', 'Rc'):
                return Ref(r.fid, ('field', r.place, 0, '?'))
            if isinstance(v, Opaque):
                tf, tp = ex.deref_target(st, v)
                return Ref(tf, tp)
        raise NotEncoded(f'Deref of {r!r}')
    if re.search(r' as (?:std::ops::)?Fn(?:Mut|Once)?<\(.*\)>>::call(?:_mut|_once)?$', callee):
        tup = A[1]
        if isinstance(tup, Agg) and tup.kind == 'tuple':
            return ex.call_closure(st, A[0], list(tup.fields))
    # ---- std::net (documented ranges: 127.0.0.0/8, ::1, 224.0.0.0/4, ff00::/8); addresses are their integer value
    m = re.match(r'^<(u32|u128) as From<(?:std::net::)?(Ipv4Addr|Ipv6Addr)>>::from$', callee)
    if m:
        v = scalar(ex, st, A[0])
        if isinstance(v, Agg) and v.kind == 'struct' and len(v.fields) == 1 and isinstance(v.fields[0], IntV):
            return v.fields[0]
        raise NotEncoded(f'{callee} on {v!r}')
    m = re.match(r'^(?:std::net::)?IpAddr::(is_loopback|is_multicast|is_ipv4|is_ipv6)$', callee)
    if m:
        v = scalar(ex, st, A[0])
        if isinstance(v, Agg) and v.variant in ('V4', 'V6') and isinstance(v.fields[0], Agg) and isinstance(v.fields[0].fields[0], IntV):
            a = v.fields[0].fields[0].t
            four = v.variant == 'V4'
            fn = m.group(1)
            if fn == 'is_ipv4':
                return BoolV(z3.BoolVal(four))
            if fn == 'is_ipv6':
                return BoolV(z3.BoolVal(not four))
            if z3.is_bv(a):
                if fn == 'is_loopback':
                    return BoolV(z3.LShR(a, 24) == 127 if four else a == 1)
                return BoolV(z3.LShR(a, 28) == 14 if four else z3.LShR(a, 120) == 0xff)
        raise NotEncoded(f'{callee} on {v!r}')
    if re.match(r'^(core::bool::<impl bool>|bool)::then_some::<', callee):
        c = scalar(ex, st, A[0])
        return [([c.t], some(A[1])), ([z3.Not(c.t)], none())]
    if re.match(r'^(core::bool::<impl bool>|bool)::then::<', callee):
        c = scalar(ex, st, A[0])
        r = ex.call_closure(st, A[1], [], then=_then_wrap(some))
        return _flatten(ex, [([c.t], r), ([z3.Not(c.t)], none())])
    if re.match(r'^(?:std::mem::|core::mem::)(drop|forget)::<', callee):
        return UNIT
    if re.match(r'^(?:std::mem::|core::mem::)(replace|take)::<', callee):
        r = A[0]
        tf, tp = ex.deref_target(st, r)
        old = ex.read(st, tf, tp)
        if 'replace' in callee:
            new = A[1]
            def eff(s2, tf=tf, tp=tp, new=new):
                ex.write(s2, tf, tp, new)
            return [([], old, eff)]
    if re.match(r'^(?:std::convert::|core::convert::)identity::<', callee):
        return A[0]
    if callee.endswith('::<impl Default for bool>::default') or callee == '<bool as Default>::default':
        return BoolV(z3.BoolVal(False))
    if re.search(r'(?:std::intrinsics|core::intrinsics)::(un)?likely$', callee) or callee.endswith('hint::black_box'):
        return A[0]
    if re.search(r'hint::unreachable_unchecked$', callee) or re.search(r'intrinsics::unreachable$', callee):
        return Diverge('unreachable_unchecked')
    return None


def m_vec_macro(ex, st, callee, A):
    """`vec![a, b]` / `nonempty![..]`: Box::new_uninit, the array written through the raw pointer, box_assume_init_into_vec_unsafe"""
    if re.search(r'Box::<\[.*\]>::new_uninit$', callee):
        return Opaque('Box<MaybeUninit<[T; N]>>', 'vec! buffer')
    if re.search(r'box_assume_init_into_vec_unsafe::<', callee):
        try:
            nn = ex.opaque_field(ex.opaque_field(A[0], None, 0, 'Unique'), None, 0, 'NonNull')
            cell = ex.deref(st, nn)

            def fld(x, i):
                return x.fields[i] if isinstance(x, Agg) else x.over[(None, i)]
            arr = fld(fld(fld(cell, 1), 0), 0)
            return Agg('struct', '~vec', None, list(arr.fields))
        except (KeyError, AttributeError, IndexError) as e:
            raise NotEncoded(f'vec! buffer shape: {e}')
    if re.search(r'^(?:std::vec::|alloc::vec::)?Vec::<.*>::with_capacity$', callee):
        return Agg('struct', '~vec', None, [])
    if re.search(r'^(?:std::vec::|alloc::vec::)?Vec::<.*>::new$', callee):
        return Agg('struct', '~vec', None, [])
    def deref_(v):
        n = 0
        while isinstance(v, Ref) and n < 6:
            v = ex.read(st, v.fid, v.place)
            n += 1
        return v
    if re.search(r'^<(?:std::vec::|alloc::vec::)?Vec<.*> as IntoIterator>::into_iter$', callee) and isinstance(A[0], Agg) and A[0].name == '~vec':
        return Agg('struct', '~vec_iter', None, list(A[0].fields))
    if re.search(r'^<(?:std::vec::|alloc::vec::)?Vec<.*> as Deref(Mut)?>::deref(_mut)?$', callee) and isinstance(A[0], Ref) and isinstance(deref_(A[0]), Agg) and deref_(A[0]).name == '~vec':
        return A[0]
    if (re.search(r'slice::<impl \[.*\]>::iter$', callee) or re.search(r'^<&(?:std::vec::|alloc::vec::)?Vec<.*> as IntoIterator>::into_iter$', callee) or re.search(r'^<&\[.*\] as IntoIterator>::into_iter$', callee)) and isinstance(A[0], Ref):
        v = deref_(A[0])
        if isinstance(v, Agg) and (v.name == '~vec' or v.kind == 'array'):     # an array seen as a slice (`&[x]`) iterates like a vector
            f2, p2 = ex.resolve_place(st, A[0].fid, A[0].place) if not isinstance(ex.read(st, A[0].fid, A[0].place), Agg) else (A[0].fid, A[0].place)
            # references to the elements in place
            base = A[0]
            while isinstance(ex.read(st, base.fid, base.place), Ref):
                base = ex.read(st, base.fid, base.place)
            return Agg('struct', '~vec_iter', None, [Ref(base.fid, ('field', base.place, i, '?')) for i in range(len(v.fields))])
    if re.search(r'BTreeMap::<.*>::iter$', callee) and isinstance(A[0], Ref):
        v = deref_(A[0])
        if isinstance(v, Agg) and v.name == '~btree':
            base = A[0]
            while isinstance(ex.read(st, base.fid, base.place), Ref):
                base = ex.read(st, base.fid, base.place)
            return Agg('struct', '~vec_iter', None, [Agg('tuple', None, None, [Ref(base.fid, ('field', ('field', base.place, i, '?'), 0, '?')), Ref(base.fid, ('field', ('field', base.place, i, '?'), 1, '?'))])
                                                      for i in range(len(v.fields))])
    if re.search(r' as IntoIterator>::into_iter$', callee) and isinstance(A[0], Agg) and A[0].name in ('~vec_iter', '~filter_iter'):
        return A[0]
    if re.search(r' as Iterator>::filter::<', callee) and isinstance(A[0], Agg) and A[0].name in ('~vec_iter', '~filter_iter'):
        return Agg('struct', '~filter_iter', None, [A[0], A[1]])
    if re.search(r' as Iterator>::next$', callee) and isinstance(A[0], Ref):
        it = ex.read(st, A[0].fid, A[0].place)
        r = A[0]
        if isinstance(it, Agg) and it.name == '~vec_iter':
            if not it.fields:
                return none()
            first, rest = it.fields[0], list(it.fields[1:])
            return [([], some(first), lambda s2: ex.write(s2, r.fid, r.place, Agg('struct', '~vec_iter', None, rest)))]
        if isinstance(it, Agg) and it.name == '~filter_iter' and isinstance(it.fields[0], Agg) and it.fields[0].name == '~vec_iter':
            pred = it.fields[1]

            def go(st2, items):
                """next of filter over the remaining concrete item list"""
                if not items:
                    return [([], none(), lambda s3: ex.write(s3, r.fid, r.place, Agg('struct', '~filter_iter', None, [Agg('struct', '~vec_iter', None, []), pred])))]
                x, rest = items[0], list(items[1:])

                def then(st3, b):
                    if not isinstance(b, BoolV):
                        raise NotEncoded(f'filter predicate returned {b!r}')
                    t = z3.simplify(b.t)
                    keep = ([t], some(x), lambda s4: ex.write(s4, r.fid, r.place, Agg('struct', '~filter_iter', None, [Agg('struct', '~vec_iter', None, rest), pred])))
                    if z3.is_true(t):
                        return [([], keep[1], keep[2])]
                    more = go(st3, rest)
                    skip = [([z3.Not(t)] + list(a[0]), a[1]) + tuple(a[2:]) for a in more] if not z3.is_false(t) else more
                    return ([keep] if not z3.is_false(t) else []) + skip
                cell = ex.new_cell(st2, x, 'filter_item')
                return ex.call_closure(st2, pred, [cell], then=then)
            res = go(st, list(it.fields[0].fields))
            return res
    if re.search(r'^(?:std::vec::|alloc::vec::)?Vec::<.*>::push$', callee) and isinstance(A[0], Ref):
        v = deref_(A[0])
        if isinstance(v, Agg) and v.name == '~vec':
            r = A[0]
            return [([], UNIT, lambda s2: ex.write(s2, r.fid, r.place, Agg('struct', '~vec', None, list(v.fields) + [A[1]])))]
    if re.search(r'^(?:std::vec::|alloc::vec::)?Vec::<.*>::pop$', callee) and isinstance(A[0], Ref):
        v = deref_(A[0])
        if isinstance(v, Agg) and v.name == '~vec':
            r = A[0]
            if not v.fields:
                return none()
            return [([], some(v.fields[-1]), lambda s2: ex.write(s2, r.fid, r.place, Agg('struct', '~vec', None, list(v.fields[:-1]))))]
    return None


# ------------------------------------------------------------------ higher-order iterator adaptors and keyed maps over small concrete containers

def key_id(op):
    """symbolic identity of a key (SmolStr / EntityType / ...): two keys are equal iff their identities are"""
    return z3.Int(f'kid!{op.id}')


def _res(ex, st, v, n=8):
    while isinstance(v, Ref) and n > 0:
        v = ex.read(st, v.fid, v.place)
        n -= 1
    return v


def key_eq(ex, st, a, b):
    a, b = _res(ex, st, a), _res(ex, st, b)
    if not (isinstance(a, Opaque) and isinstance(b, Opaque)):
        raise NotEncoded(f'key comparison of {a!r} and {b!r}')
    if a.id == b.id:
        return z3.BoolVal(True)
    return key_id(a) == key_id(b)


def _take_iter(ex, st, x):
    """items of a '~vec_iter' passed by value or by &mut; returns (items, consume(st2))"""
    if isinstance(x, Ref):
        it = ex.read(st, x.fid, x.place)
        if isinstance(it, Agg) and it.name == '~vec_iter':
            return list(it.fields), (lambda s2: ex.write(s2, x.fid, x.place, Agg('struct', '~vec_iter', None, [])))
        return None, None
    if isinstance(x, Agg) and x.name == '~vec_iter':
        return list(x.fields), (lambda s2: None)
    return None, None


def _is_ok_like(ex, v):
    """(condition that `v` continues a try_for_each, or None if unknown shape)"""
    if isinstance(v, Agg) and v.variant in ('Ok', 'Continue', 'Some'):
        return z3.BoolVal(True)
    if isinstance(v, Agg) and v.variant in ('Err', 'Break', 'None'):
        return z3.BoolVal(False)
    if isinstance(v, Opaque):
        for good in ('Ok', 'Continue'):
            try:
                return ex.is_variant(v, good)
            except NotEncoded:
                continue
    return None


def m_iter_hof(ex, st, callee, A):
    m = re.search(r' as Iterator>::(any|all|try_for_each|for_each|filter_map|count|zip|collect|map|rev|fold)(::<(.*)>)?$', callee)
    if m and A:
        op = m.group(1)
        items, consume = _take_iter(ex, st, A[0])
        if items is None:
            return None
        if op == 'count':
            return [([], IntV(z3.IntVal(len(items)), 'usize'), consume)]
        if op == 'rev':
            return Agg('struct', '~vec_iter', None, list(reversed(items)))
        if op == 'fold':
            clo = A[2]

            def gofold(st2, rest, acc):
                if not rest:
                    return acc
                return ex.call_closure(st2, clo, [acc, rest[0]], then=lambda st3, r: gofold(st3, rest[1:], r))
            return gofold(st, items, A[1])
        if op == 'zip':
            other, _ = _take_iter(ex, st, A[1])
            if other is None:
                return None
            n = min(len(items), len(other))
            return Agg('struct', '~vec_iter', None, [Agg('tuple', None, None, [items[i], other[i]]) for i in range(n)])
        if op == 'collect':
            tgt = m.group(3) or ''
            mr = re.match(r'^(?:std::result::|core::result::)?Result<(.*)>$', tgt.strip())
            if mr:
                # collect::<Result<C, E>>: the first Err, else Ok(C of the payloads) - on items whose variants are concrete
                pay = []
                for it in items:
                    if not (isinstance(it, Agg) and it.variant in ('Ok', 'Err')):
                        raise NotEncoded(f'collect into a Result of {it!r}')
                    if it.variant == 'Err':
                        return it
                    pay.append(it.fields[0])
                inner = split_top(mr.group(1))[0].strip()
                if re.search(r'(HashMap|BTreeMap)<', inner.split('<')[0] + '<'):
                    return ok(Agg('struct', '~hmap', None, pay))
                return ok(Agg('struct', '~vec', None, pay))
            if re.search(r'(HashMap|BTreeMap)<', tgt):
                ents = []
                for it in items:
                    if not (isinstance(it, Agg) and it.kind == 'tuple' and len(it.fields) == 2):
                        raise NotEncoded(f'collect into a map of {it!r}')
                    ents.append(it)
                return Agg('struct', '~hmap', None, ents)
            if re.search(r'(^|[:<])Vec<', tgt):
                return Agg('struct', '~vec', None, items)
            return None
        clo = A[1]
        if op == 'map':
            # eager map over the concrete item list (closures of the code under test are pure); results in order
            def gomap(st2, rest, acc):
                if not rest:
                    return Agg('struct', '~vec_iter', None, acc)
                return ex.call_closure(st2, clo, [rest[0]], then=lambda st3, r: gomap(st3, rest[1:], acc + [r]))
            return gomap(st, items, [])

        if op == 'for_each':
            def goeach(st2, rest):
                if not rest:
                    return UNIT
                return ex.call_closure(st2, clo, [rest[0]], then=lambda st3, r: goeach(st3, rest[1:]))
            return goeach(st, items)
        if op == 'filter_map':
            # eager, like map: the closure result decides per path whether the item is kept
            def gofm(st2, rest, acc):
                if not rest:
                    return Agg('struct', '~vec_iter', None, acc)

                def then(st3, r):
                    alts = []
                    for cnd, n, p in enum_cases(ex, st3, r):
                        c = z3.simplify(cnd)
                        if z3.is_false(c):
                            continue
                        alts.append(([] if z3.is_true(c) else [c], gofm(st3, rest[1:], acc + ([p[0]] if n == 'Some' else []))))
                    return alts
                return ex.call_closure(st2, clo, [rest[0]], then=then)
            return gofm(st, items, [])

        def go(st2, rest):
            if not rest:
                if op == 'any':
                    return BoolV(z3.BoolVal(False))
                if op == 'all':
                    return BoolV(z3.BoolVal(True))
                return ok(UNIT)
            x, more = rest[0], rest[1:]

            def then(st3, r):
                if op in ('any', 'all'):
                    if not isinstance(r, BoolV):
                        raise NotEncoded(f'{op} closure returned {r!r}')
                    t = z3.simplify(r.t)
                    stop_c, stop_v = (t, True) if op == 'any' else (z3.Not(t), False)
                    alts = []
                    if not z3.is_false(z3.simplify(stop_c)):
                        alts.append(([stop_c] if not z3.is_true(z3.simplify(stop_c)) else [], BoolV(z3.BoolVal(stop_v))))
                    if not z3.is_true(z3.simplify(stop_c)):
                        alts.append(([z3.Not(stop_c)] if not z3.is_false(z3.simplify(stop_c)) else [], go(st3, more)))
                    return alts
                c = _is_ok_like(ex, r)
                if c is None:
                    raise NotEncoded(f'try_for_each closure returned {r!r}')
                c = z3.simplify(c)
                alts = []
                if not z3.is_true(c):
                    alts.append(([z3.Not(c)] if not z3.is_false(c) else [], r))
                if not z3.is_false(c):
                    alts.append(([c] if not z3.is_true(c) else [], go(st3, more)))
                return alts
            return ex.call_closure(st2, clo, [x], then=then)
        r = go(st, items)
        if consume is not None and isinstance(A[0], Ref):
            consume(st)
        return r
    # keyed maps
    if re.search(r'(HashMap|BTreeMap)::<.*>::(contains_key|get)(::<.*>)?$', callee) and isinstance(A[0], Ref):
        mp = _res(ex, st, A[0])
        if isinstance(mp, Agg) and mp.name in ('~hmap', '~btree'):
            base = A[0]
            while isinstance(ex.read(st, base.fid, base.place), Ref):
                base = ex.read(st, base.fid, base.place)
            eqs = [key_eq(ex, st, e.fields[0], A[1]) for e in mp.fields]
            if re.search(r'::contains_key(::<.*>)?$', callee):
                return BoolV(z3.simplify(z3.Or(eqs)) if eqs else z3.BoolVal(False))
            alts = []
            seen = []
            for i, q in enumerate(eqs):
                alts.append(([z3.And([z3.Not(x) for x in seen] + [q])], some(Ref(base.fid, ('field', ('field', base.place, i, '?'), 1, '?')))))
                seen.append(q)
            alts.append(([z3.And([z3.Not(x) for x in seen])] if seen else [], none()))
            return alts
    if re.search(r'(HashMap|BTreeMap)::<.*>::(iter|values|keys|is_empty|len)$', callee) and isinstance(A[0], Ref):
        mp = _res(ex, st, A[0])
        if isinstance(mp, Agg) and mp.name in ('~hmap',):
            base = A[0]
            while isinstance(ex.read(st, base.fid, base.place), Ref):
                base = ex.read(st, base.fid, base.place)
            what = callee.rsplit('::', 1)[1]
            n = len(mp.fields)
            if what == 'is_empty':
                return BoolV(z3.BoolVal(n == 0))
            if what == 'len':
                return IntV(z3.IntVal(n), 'usize')
            ref = lambda i, j: Ref(base.fid, ('field', ('field', base.place, i, '?'), j, '?'))
            if what == 'iter':
                return Agg('struct', '~vec_iter', None, [Agg('tuple', None, None, [ref(i, 0), ref(i, 1)]) for i in range(n)])
            return Agg('struct', '~vec_iter', None, [ref(i, 1 if what == 'values' else 0) for i in range(n)])
    if re.search(r'<&?(std::collections::)?(HashMap|BTreeMap)<.*> as IntoIterator>::into_iter$', callee):
        mp = A[0]
        if isinstance(mp, Agg) and mp.name in ('~hmap', '~btree'):
            return Agg('struct', '~vec_iter', None, list(mp.fields))
        if isinstance(mp, Ref):
            v = _res(ex, st, mp)
            if isinstance(v, Agg) and v.name in ('~hmap', '~btree'):
                base = mp
                while isinstance(ex.read(st, base.fid, base.place), Ref):
                    base = ex.read(st, base.fid, base.place)
                return Agg('struct', '~vec_iter', None, [Agg('tuple', None, None, [Ref(base.fid, ('field', ('field', base.place, i, '?'), 0, '?')), Ref(base.fid, ('field', ('field', base.place, i, '?'), 1, '?'))])
                                                          for i in range(len(v.fields))])
    return None


def m_option_eq(ex, st, callee, A):
    """Option<T> == Option<T> on values whose variants are concrete: scalars compared directly, other payloads through `<T as PartialEq>::eq`"""
    m = re.match(r'^<(?:std::option::|core::option::)?Option<(.+)> as PartialEq>::(eq|ne)$', callee)
    if not m:
        return None
    a, b = _res(ex, st, A[0]), _res(ex, st, A[1])
    if not (isinstance(a, Agg) and isinstance(b, Agg) and a.variant in ('Some', 'None') and b.variant in ('Some', 'None')):
        return None
    neg = m.group(2) == 'ne'
    if a.variant != b.variant:
        return BoolV(z3.BoolVal(neg))
    if a.variant == 'None':
        return BoolV(z3.BoolVal(not neg))
    x, y = _res(ex, st, a.fields[0]), _res(ex, st, b.fields[0])
    if isinstance(x, (BoolV, IntV)) and isinstance(y, (BoolV, IntV)):
        t = x.t == y.t
        return BoolV(z3.Not(t) if neg else t)
    refs = []
    for r in (A[0], A[1]):
        if not isinstance(r, Ref):
            return None
        while isinstance(ex.read(st, r.fid, r.place), Ref):
            r = ex.read(st, r.fid, r.place)
        refs.append(Ref(r.fid, ('field', ('downcast', r.place, 'Some'), 0, m.group(1))))
    r = ex.dispatch(st, f'<{m.group(1)} as PartialEq>::eq', refs)
    if not neg:
        return r
    flip = lambda st2, v: BoolV(z3.Not(v.t))
    if isinstance(r, Enter):
        if r.then is not None:
            raise NotEncoded('nested continuation')
        return Enter(r.func, r.args, flip, r.subst)
    if isinstance(r, BoolV):
        return BoolV(z3.Not(r.t))
    raise NotEncoded(f'Option::ne over {r!r}')


def m_ref_eq(ex, st, callee, A):
    """`&A == &B` (std blanket impl) and the default `ne`: delegate to `<A as PartialEq>::eq` on the referents"""
    m = re.match(r'^<&(.+?) as PartialEq(?:<&(.+)>)?>::(eq|ne)$', callee)
    neg = False
    if m:
        inner = f'<{m.group(1)} as PartialEq>::eq' if not m.group(2) or m.group(2) == m.group(1) else f'<{m.group(1)} as PartialEq<{m.group(2)}>>::eq'
        args = []
        for a in A:
            v = ex.read(st, a.fid, a.place) if isinstance(a, Ref) else a
            args.append(v if isinstance(v, Ref) else a)
        neg = m.group(3) == 'ne'
    else:
        m2 = re.match(r'^<(.+) as PartialEq(<.*>)?>::ne$', callee)
        if not m2 or ex.resolve(callee, A) is not None:
            return None
        inner, args, neg = callee[:-2] + 'eq', list(A), True
    r = ex.dispatch(st, inner, args)
    if not neg:
        return r
    flip = lambda st2, v: BoolV(z3.Not(v.t)) if isinstance(v, BoolV) else (_ for _ in ()).throw(NotEncoded(f'ne over {v!r}'))
    if isinstance(r, Enter):
        if r.then is not None:
            raise NotEncoded('nested continuation')
        return Enter(r.func, r.args, flip, r.subst)
    if isinstance(r, BoolV):
        return BoolV(z3.Not(r.t))
    if isinstance(r, list):
        return [(a[0], BoolV(z3.Not(a[1].t))) + tuple(a[2:]) for a in r]
    raise NotEncoded(f'ne over {r!r}')


def install(ex):
    for rx, fn in [
        (r'new_uninit$|box_assume_init_into_vec_unsafe::<|Vec::<.*>::(new|with_capacity|push|pop)$|Vec<.*> as Deref(Mut)?>::deref(_mut)?$| as IntoIterator>::into_iter$| as Iterator>::(next$|filter::<)|slice::<impl \[.*\]>::iter$|BTreeMap::<.*>::iter$', m_vec_macro),
        (r' as Iterator>::(any|all|try_for_each|for_each|filter_map|count|zip|collect|map|rev|fold)(::<.*>)?$|(HashMap|BTreeMap)::<.*>::(contains_key|get|iter|values|keys|is_empty|len)(::<.*>)?$|(HashMap|BTreeMap)<.*> as IntoIterator>::into_iter$', m_iter_hof),
        (r'<impl [iu](8|16|32|64|128|size)>::\w+$', m_int),
        (r'(PartialOrd|PartialEq|Ord)(<[^>]*>)?( for \w+)?>::\w+$', m_int_cmp),
        (r'PartialOrd(<[^>]*>)?>::(lt|le|gt|ge)$|Ord>::(max|min)$', m_partial_ord),
        (r'(From|Into|TryFrom|TryInto)<\w+>>::(from|into|try_from|try_into)$', m_int_conv),
        (r'(Try>::branch|Try>::from_output|::from_residual)$', m_try),
        (r'Option<.+> as PartialEq>::(eq|ne)$', m_option_eq),
        (r'Option::<', m_option),
        (r'Result::<', m_result),
        (r'^<&.+ as PartialEq(<&.+>)?>::(eq|ne)$|^<.+ as PartialEq(<.*>)?>::ne$', m_ref_eq),
        (r'.', m_misc),
    ]:
        ex.model(rx, fn)
