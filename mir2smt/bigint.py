"""Model of num_bigint::{BigUint, BigInt} as unbounded SMT integers (trusted; the crate's digit-vector loops are not
encoded).  Used only by C18.  BigV values carry a z3 Int term."""
import re
import z3
from .executor import IntV, BoolV, Agg, Opaque, Ref, NotEncoded, Enter, Diverge, UNIT
from .models import some, none, ok, err, scalar


class BigV:
    __slots__ = ('t', 'signed')

    def __init__(s, t, signed):
        s.t, s.signed = t, signed

    def __repr__(s):
        return f'Big{"Int" if s.signed else "Uint"}({s.t})'


def big(ex, st, v):
    n = 0
    while isinstance(v, Ref) and n < 6:
        v = ex.read(st, v.fid, v.place)
        n += 1
    if isinstance(v, BigV):
        return v
    if isinstance(v, IntV):
        return BigV(v.t, True)
    raise NotEncoded(f'not a big integer: {v!r}')


def pow2_alts(ex, e, bound):
    """2^e for a symbolic exponent: exact below `bound`, an abstract multiple of 2^bound above"""
    c = ex.concrete(e)
    if c is not None:
        return [([], z3.IntVal(1 << c))]
    alts = [([e == k], z3.IntVal(1 << k)) for k in range(bound)]
    P = z3.Int(f'pow2!{next(ex.fresh_n)}')
    ex.invariants.append(z3.And(P >= (1 << bound), P % (1 << bound) == 0))
    alts.append(([e >= bound], P))
    return alts


def install(ex, pow_bound=130):
    T = z3.BoolVal(True)

    def binop(op):
        def f(ex, st, c, A):
            a, b = big(ex, st, A[0]), big(ex, st, A[1])
            sg = a.signed or b.signed or 'BigInt' in c
            if op == 'add':
                return BigV(a.t + b.t, sg)
            if op == 'mul':
                return BigV(a.t * b.t, sg)
            if op == 'sub':
                r = a.t - b.t
                if sg:
                    return BigV(r, True)
                return [([r >= 0], BigV(r, False)), ([r < 0], Diverge('BigUint subtraction underflow'))]
            if op in ('div', 'rem'):
                cb = ex.concrete(b.t)
                if cb is not None and cb > 0 and not sg:
                    return BigV(a.t / cb if op == 'div' else a.t % cb, False)
                q, r = ex.divrem(a.t, b.t)
                return [([b.t != 0], BigV(q if op == 'div' else r, sg)), ([b.t == 0], Diverge('big-integer division by zero'))]
            raise NotEncoded(op)
        return f
    for op, pat in (('add', r'as (?:std::ops::)?Add(?:<.*>)?>::add$'), ('sub', r'as (?:std::ops::)?Sub(?:<.*>)?>::sub$'), ('mul', r'as (?:std::ops::)?Mul(?:<.*>)?>::mul$'),
                    ('div', r'as (?:std::ops::)?Div(?:<.*>)?>::div$'), ('rem', r'as (?:std::ops::)?Rem(?:<.*>)?>::rem$')):
        ex.stub(r'^<&?(?:BigU?[Ii]nt|i32|u32) ' + pat, binop(op), f'num-bigint model: {op}')
    ex.stub(r'^<BigInt as (?:std::ops::)?Neg>::neg$', lambda ex, st, c, A: BigV(-big(ex, st, A[0]).t, True), 'num-bigint model: neg')

    def cmp(ex, st, c, A):
        a, b = big(ex, st, A[0]), big(ex, st, A[1])
        fn = c.rsplit('::', 1)[1]
        f = {'lt': a.t < b.t, 'le': a.t <= b.t, 'gt': a.t > b.t, 'ge': a.t >= b.t, 'eq': a.t == b.t, 'ne': a.t != b.t}.get(fn)
        if f is not None:
            return BoolV(z3.simplify(f))
        if fn in ('cmp', 'partial_cmp'):
            w = some if fn == 'partial_cmp' else (lambda v: v)
            return [([a.t < b.t], w(Agg('variant', 'std::cmp::Ordering', 'Less', []))), ([a.t == b.t], w(Agg('variant', 'std::cmp::Ordering', 'Equal', []))),
                    ([a.t > b.t], w(Agg('variant', 'std::cmp::Ordering', 'Greater', [])))]
        raise NotEncoded(c)
    ex.stub(r'^<&?BigU?[Ii]nt as (?:std::cmp::)?(?:PartialOrd|PartialEq|Ord)(?:<.*>)?>::\w+$', cmp, 'num-bigint model: comparisons')
    ex.stub(r'^<BigU?[Ii]nt as From<[iu]\d+>>::from$', lambda ex, st, c, A: BigV(scalar(ex, st, A[0]).t, 'BigInt' in c), 'num-bigint model: From<machine int>')
    ex.stub(r'^<BigUint as (?:num_bigint::)?ToBigInt>::to_bigint$', lambda ex, st, c, A: some(BigV(big(ex, st, A[0]).t, True)), 'num-bigint model: to_bigint')

    def to_biguint(ex, st, c, A):
        a = big(ex, st, A[0])
        return [([a.t >= 0], some(BigV(a.t, False))), ([a.t < 0], none())]
    ex.stub(r'^BigInt::to_biguint$', to_biguint, 'num-bigint model: to_biguint')

    def to_u32(ex, st, c, A):
        a = big(ex, st, A[0])
        fits = z3.And(a.t >= 0, a.t < (1 << 32))
        return [([fits], some(IntV(a.t, 'u32'))), ([z3.Not(fits)], none())]
    ex.stub(r'^<BigUint as (?:num_traits::)?ToPrimitive>::to_u32$', to_u32, 'num-bigint model: to_u32')

    def bpow(ex, st, c, A):
        a = big(ex, st, A[0])
        e = scalar(ex, st, A[1])
        base = ex.concrete(a.t)
        if base != 2:
            raise NotEncoded(f'BigUint::pow with base {a.t}')
        return [(conds, BigV(v, False)) for conds, v in pow2_alts(ex, e.t, ex.pow_bound)]
    ex.stub(r'^BigUint::pow$', bpow, 'num-bigint model: pow (base 2; symbolic exponent exact below the stated bound)')

    def shl(ex, st, c, A):
        a = big(ex, st, A[0])
        e = scalar(ex, st, A[1])
        return [(conds, BigV(a.t * v, False)) for conds, v in pow2_alts(ex, e.t, ex.pow_bound)]
    ex.stub(r'^<&?BigUint as (?:std::ops::)?Shl<u32>>::shl$', shl, 'num-bigint model: shl by u32')

    def bitxor(ex, st, c, A):
        a, m = big(ex, st, A[0]), big(ex, st, A[1])
        cm = ex.concrete(m.t)
        if cm is None or (cm & (cm + 1)) != 0:
            raise NotEncoded('bitxor with a non-constant or non all-ones mask')
        return [([a.t <= cm], BigV(cm - a.t, False)), ([a.t > cm], Diverge('bitxor model: operand wider than the all-ones mask (outside the model)'))]
    ex.stub(r'^<&?BigUint as (?:std::ops::)?BitXor(?:<.*>)?>::bitxor$', bitxor, 'num-bigint model: xor against an all-ones mask')

    def lazy(ex, st, c, A):
        cands = [n for n in ex.prog.names() if re.search(r'(^|::)TWO::\{closure#0\}$', n)]
        if len(cands) != 1:
            raise NotEncoded(f'LazyLock<BigUint> initialiser: {cands}')
        f = ex.prog.funcs_named(cands[0])[0]
        return Enter(f, [Agg('closure', f.args[0][1], None, [])], lambda st2, v: ex.new_cell(st2, v, 'TWO'))
    ex.stub(r'^<LazyLock<BigUint> as Deref>::deref$', lazy, 'static TWO: evaluated from its own initialiser closure')
    # NonZero<u32> is its integer
    ex.stub(r'^NonZero::<u32>::get$', lambda ex, st, c, A: scalar(ex, st, A[0]), 'NonZero::get (identity)')
    ex.stub(r'^NonZero::<u32>::new$', lambda ex, st, c, A: [([scalar(ex, st, A[0]).t != 0], some(scalar(ex, st, A[0]))), ([scalar(ex, st, A[0]).t == 0], none())], 'NonZero::new')

    def nz_checked_add(ex, st, c, A):
        a, b = scalar(ex, st, A[0]), scalar(ex, st, A[1])
        e = a.t + b.t
        return [([e < (1 << 32)], some(IntV(e, 'u32'))), ([e >= (1 << 32)], none())]
    ex.stub(r'^NonZero::<u32>::checked_add$', nz_checked_add, 'NonZero::checked_add')
    ex.stub(r'^<NonZero<u32> as (?:std::cmp::)?PartialEq>::(eq|ne)$',
            lambda ex, st, c, A: BoolV(z3.simplify((scalar(ex, st, A[0]).t == scalar(ex, st, A[1]).t) if c.endswith('eq') else (scalar(ex, st, A[0]).t != scalar(ex, st, A[1]).t))), 'NonZero equality')
    ex.stub(r'^<&str as Into<std::string::String>>::into$', lambda ex, st, c, A: Opaque('String', 'message'), 'String from &str (opaque)')
    ex.pow_bound = pow_bound
    ex.const_hooks.append(lambda tok: BigV(z3.IntVal(0), tok.endswith('BigInt::ZERO')) if re.search(r'(^|::)Big(Uint|Int)::ZERO$', tok) else None)
