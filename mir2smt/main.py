import sys, os, importlib, traceback, json
from .framework import Ctx, MachineryError, build_mir, Native, VERIF


def main(argv):
    if not argv:
        print(__doc__ or 'usage: check <id> [--tier quick|thorough]'); return 2
    if argv[0] == 'setup':
        for c in ('core', 'symcc', 'api', 'coreem', 'cli'):
            build_mir(c)
        n = Native('dev'); n.build()
        n2 = Native('dev', crate='replay-symcc', binname='verif-replay-symcc'); n2.build()
        from .props import c19_cli
        c19_cli.build_cli(None)         # the `cedar` binary of the tree (native CLI battery of C19)
        print('setup ok'); return 0
    if argv[0] == 'replay':
        from .replay import replay_file
        return replay_file(argv[1])
    pid = argv[0]
    tier = os.environ.get('VERIF_TIER', 'quick')
    if '--tier' in argv:
        tier = argv[argv.index('--tier') + 1]
    seed = int(os.environ.get('VERIF_SEED', '0') or 0)
    ctx = Ctx(pid, tier, seed)
    try:
        mod = importlib.import_module(f'.props.{pid.lower()}', 'mir2smt')
        return mod.run(ctx)
    except MachineryError as e:
        print(f'MACHINERY-ERROR {pid}: {e}')
        return 2
    except Exception:
        traceback.print_exc()
        print(f'MACHINERY-ERROR {pid}: unexpected exception')
        return 2


if __name__ == '__main__':
    sys.exit(main(sys.argv[1:]))
