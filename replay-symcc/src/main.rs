//! Native replay of the SymCC constant-folding kernels (C18): one JSON request per line.
use cedar_policy_symcc::bitvec::BitVec;
use num_bigint::{BigInt, BigUint};
use serde_json::{json, Value as J};
use std::io::{BufRead, Write};
use std::num::NonZeroU32;
use std::str::FromStr;

fn bv(w: u32, s: &str) -> BitVec {
    BitVec::of_nat(NonZeroU32::new(w).unwrap(), BigUint::from_str(s).unwrap())
}

fn out_bv(r: Result<BitVec, cedar_policy_symcc::bitvec::BitVecError>) -> J {
    match r {
        Ok(b) => json!({"ok": {"width": b.width().get(), "nat": b.to_nat().to_string()}}),
        Err(e) => json!({"err": e.to_string()}),
    }
}

fn out_bool(r: Result<bool, cedar_policy_symcc::bitvec::BitVecError>) -> J {
    match r {
        Ok(b) => json!({"ok": {"bool": b}}),
        Err(e) => json!({"err": e.to_string()}),
    }
}

/// Verification conditions on a LITERAL symbolic environment vs the concrete authorizer (public APIs only, no solver).
/// in: {schema, principal, action, resource, context (JSON text), entities (JSON text), policy1, policy2 (single-policy texts)}
/// out: {concrete: {allow1, errors1, allow2, errors2}, holds: {never_errors, always_matches, never_matches, matches_*, always_allows, always_denies, implies, equivalent, disjoint}} (null = not constant)
fn symcc_literal(req: &J) -> J {
    use cedar_policy::{Authorizer, Context, Decision, Entities, EntityUid, PolicyId, PolicySet, Request, RequestEnv, Schema, ValidationMode, Validator};
    use cedar_policy_symcc::{always_allows_asserts, always_denies_asserts, always_matches_asserts, disjoint_asserts, equivalent_asserts, implies_asserts, matches_disjoint_asserts, matches_equivalent_asserts,
                             matches_implies_asserts, never_errors_asserts, never_matches_asserts, CompiledPolicy, CompiledPolicySet, Env, SymEnv, WellFormedAsserts};
    let g = |k: &str| req[k].as_str().unwrap_or("").to_string();
    let schema = match Schema::from_cedarschema_str(&g("schema")) { Ok(s) => s.0, Err(e) => return json!({"input_error": e.to_string()}) };
    let (p, a, r) = match (EntityUid::from_str(&g("principal")), EntityUid::from_str(&g("action")), EntityUid::from_str(&g("resource"))) { (Ok(p), Ok(a), Ok(r)) => (p, a, r), _ => return json!({"input_error": "uids"}) };
    let req_env = RequestEnv::new(p.type_name().clone(), a.clone(), r.type_name().clone());
    let context = match Context::from_json_str(&g("context"), Some((&schema, &a))) { Ok(c) => c, Err(e) => return json!({"input_error": e.to_string()}) };
    let request = match Request::new(p, a, r, context, Some(&schema)) { Ok(q) => q, Err(e) => return json!({"input_error": e.to_string()}) };
    let entities = match Entities::from_json_str(&g("entities"), Some(&schema)) { Ok(e) => e, Err(e) => return json!({"input_error": e.to_string()}) };
    let env = Env { request, entities };
    let symenv = || SymEnv::from_concrete_env(&req_env, &schema, &env);
    let pset = |src: &str| -> Result<PolicySet, String> {
        let ps = PolicySet::from_str(src).map_err(|e| e.to_string())?;
        let res = Validator::new(schema.clone()).validate(&ps, ValidationMode::Strict);
        if !res.validation_passed() { return Err(format!("does not validate: {res}")); }
        Ok(ps)
    };
    let (ps1, ps2) = match (pset(&g("policy1")), pset(&g("policy2"))) { (Ok(a), Ok(b)) => (a, b), (Err(e), _) | (_, Err(e)) => return json!({"input_error": e}) };
    let concrete = |ps: &PolicySet| { let resp = Authorizer::new().is_authorized(&env.request, ps, &env.entities); let errs = resp.diagnostics().errors().count() > 0; (resp.decision() == Decision::Allow, errs) };
    let ((allow1, errors1), (allow2, errors2)) = (concrete(&ps1), concrete(&ps2));
    let holds = |asserts: &WellFormedAsserts<'_>| -> J {
        let t: cedar_policy_symcc::term::Term = true.into();
        let f: cedar_policy_symcc::term::Term = false.into();
        if asserts.asserts().iter().any(|a| a != &t && a != &f) { return J::Null; }
        json!(asserts.asserts().iter().any(|a| a == &f))
    };
    let one = |ps: &PolicySet| ps.policies().next().map(|p| p.new_id(PolicyId::new("p")));
    let (pol1, pol2) = match (one(&ps1), one(&ps2)) { (Some(a), Some(b)) => (a, b), _ => return json!({"input_error": "one policy each"}) };
    let se = |_: ()| symenv().map_err(|e| format!("{e:?}"));
    let cp = |p: &cedar_policy::Policy| -> Result<CompiledPolicy, String> { CompiledPolicy::compile_with_custom_symenv(p, &req_env, &schema, se(())?).map_err(|e| format!("{e:?}")) };
    let cs = |ps: &PolicySet| -> Result<CompiledPolicySet, String> { CompiledPolicySet::compile_with_custom_symenv(ps, &req_env, &schema, se(())?).map_err(|e| format!("{e:?}")) };
    let (c1, c2, s1, s2) = match (cp(&pol1), cp(&pol2), cs(&ps1), cs(&ps2)) { (Ok(a), Ok(b), Ok(c), Ok(d)) => (a, b, c, d), (Err(e), ..) | (_, Err(e), ..) | (_, _, Err(e), _) | (_, _, _, Err(e)) => return json!({"compile_error": e}) };
    json!({"concrete": {"allow1": allow1, "errors1": errors1, "allow2": allow2, "errors2": errors2, "permit1": pol1.effect() == cedar_policy::Effect::Permit, "permit2": pol2.effect() == cedar_policy::Effect::Permit},
           "holds": {"never_errors": holds(&never_errors_asserts(&c1)), "always_matches": holds(&always_matches_asserts(&c1)), "never_matches": holds(&never_matches_asserts(&c1)),
                     "matches_equivalent": holds(&matches_equivalent_asserts(&c1, &c2)), "matches_implies": holds(&matches_implies_asserts(&c1, &c2)), "matches_disjoint": holds(&matches_disjoint_asserts(&c1, &c2)),
                     "always_allows": holds(&always_allows_asserts(&s1)), "always_denies": holds(&always_denies_asserts(&s1)), "implies": holds(&implies_asserts(&s1, &s2)),
                     "equivalent": holds(&equivalent_asserts(&s1, &s2)), "disjoint": holds(&disjoint_asserts(&s1, &s2))}})
}

fn handle(req: &J) -> J {
    if req["op"] == "symcc_literal" { return symcc_literal(req); }
    let w = req["w"].as_u64().unwrap_or(64) as u32;
    let x = req["x"].as_str().unwrap_or("0");
    let y = req["y"].as_str().unwrap_or("0");
    let width = NonZeroU32::new(w).unwrap();
    match req["op"].as_str().unwrap_or("") {
        "add" => out_bv(BitVec::add(&bv(w, x), &bv(w, y))),
        "sub" => out_bv(BitVec::sub(&bv(w, x), &bv(w, y))),
        "mul" => out_bv(BitVec::mul(&bv(w, x), &bv(w, y))),
        "udiv" => out_bv(BitVec::udiv(&bv(w, x), &bv(w, y))),
        "urem" => out_bv(BitVec::urem(&bv(w, x), &bv(w, y))),
        "sdiv" => out_bv(BitVec::sdiv(&bv(w, x), &bv(w, y))),
        "srem" => out_bv(BitVec::srem(&bv(w, x), &bv(w, y))),
        "smod" => out_bv(BitVec::smod(&bv(w, x), &bv(w, y))),
        "shl" => out_bv(BitVec::shl(&bv(w, x), &bv(w, y))),
        "lshr" => out_bv(BitVec::lshr(&bv(w, x), &bv(w, y))),
        "neg" => out_bv(Ok(bv(w, x).neg())),
        "not" => out_bv(Ok(bv(w, x).not())),
        "slt" => out_bool(BitVec::slt(&bv(w, x), &bv(w, y))),
        "sle" => out_bool(BitVec::sle(&bv(w, x), &bv(w, y))),
        "ult" => out_bool(BitVec::ult(&bv(w, x), &bv(w, y))),
        "ule" => out_bool(BitVec::ule(&bv(w, x), &bv(w, y))),
        "of_int" => out_bv(Ok(BitVec::of_int(width, BigInt::from_str(x).unwrap()))),
        "to_int" => json!({"ok": {"int": bv(w, x).to_int().to_string()}}),
        "overflows" => json!({"ok": {"bool": BitVec::overflows(width, &BigInt::from_str(x).unwrap())}}),
        "zero_extend" => out_bv(Ok(BitVec::zero_extend(&bv(w, x), NonZeroU32::new(req["n"].as_u64().unwrap_or(1) as u32).unwrap()))),
        "concat" => out_bv(BitVec::concat(&bv(w, x), &bv(req["w2"].as_u64().unwrap_or(1) as u32, y))),
        "extract" => out_bv(bv(w, x).extract_bits(req["lo"].as_u64().unwrap_or(0) as u32, req["hi"].as_u64().unwrap_or(0) as u32)),
        "bvsaddo" | "bvssubo" | "bvsmulo" | "bvnego" => {
            use cedar_policy_symcc::term::{Term, TermPrim};
            use cedar_policy_symcc::term_factory as tf;
            let t1 = Term::Prim(TermPrim::Bitvec(bv(w, x)));
            let t2 = Term::Prim(TermPrim::Bitvec(bv(w, y)));
            let r = match req["op"].as_str().unwrap_or("") {
                "bvsaddo" => tf::bvsaddo(t1, t2),
                "bvssubo" => tf::bvssubo(t1, t2),
                "bvsmulo" => tf::bvsmulo(t1, t2),
                _ => tf::bvnego(t1),
            };
            match r {
                Term::Prim(TermPrim::Bool(b)) => json!({"ok": {"bool": b}}),
                other => json!({"err": format!("not folded to a constant: {other:?}")}),
            }
        }
        other => json!({"unknown_op": other}),
    }
}

fn main() {
    std::panic::set_hook(Box::new(|_| {}));
    let stdin = std::io::stdin();
    let mut out = std::io::stdout().lock();
    for line in stdin.lock().lines() {
        let Ok(line) = line else { break };
        if line.trim().is_empty() {
            continue;
        }
        let req: J = match serde_json::from_str(&line) {
            Ok(j) => j,
            Err(e) => {
                writeln!(out, "{}", json!({"bad_request": e.to_string()})).ok();
                continue;
            }
        };
        let ans = match std::panic::catch_unwind(|| handle(&req)) {
            Ok(a) => a,
            Err(p) => json!({"panic": p.downcast_ref::<String>().cloned().or_else(|| p.downcast_ref::<&str>().map(|s| s.to_string())).unwrap_or_else(|| "panic".into())}),
        };
        writeln!(out, "{}", ans).ok();
    }
}
