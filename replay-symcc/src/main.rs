//! Native replay of the SymCC constant-folding kernels (C18): one JSON request per line.
use cedar_policy_symcc::bitvec::BitVec;
use num_bigint::{BigInt, BigUint};
use serde_json::{json, Value as J};
use std::io::{BufRead, Write};
use std::num::NonZeroU32;
use std::str::FromStr;

fn bv(w: u32, s: &str) -> BitVec {
    BitVec::of_nat(NonZeroU32::new(w).unwrap(), BigUint::from_str(s).unwrap())
}

fn out_bv(r: Result<BitVec, cedar_policy_symcc::bitvec::BitVecError>) -> J {
    match r {
        Ok(b) => json!({"ok": {"width": b.width().get(), "nat": b.to_nat().to_string()}}),
        Err(e) => json!({"err": e.to_string()}),
    }
}

fn out_bool(r: Result<bool, cedar_policy_symcc::bitvec::BitVecError>) -> J {
    match r {
        Ok(b) => json!({"ok": {"bool": b}}),
        Err(e) => json!({"err": e.to_string()}),
    }
}

fn handle(req: &J) -> J {
    let w = req["w"].as_u64().unwrap_or(64) as u32;
    let x = req["x"].as_str().unwrap_or("0");
    let y = req["y"].as_str().unwrap_or("0");
    let width = NonZeroU32::new(w).unwrap();
    match req["op"].as_str().unwrap_or("") {
        "add" => out_bv(BitVec::add(&bv(w, x), &bv(w, y))),
        "sub" => out_bv(BitVec::sub(&bv(w, x), &bv(w, y))),
        "mul" => out_bv(BitVec::mul(&bv(w, x), &bv(w, y))),
        "udiv" => out_bv(BitVec::udiv(&bv(w, x), &bv(w, y))),
        "urem" => out_bv(BitVec::urem(&bv(w, x), &bv(w, y))),
        "sdiv" => out_bv(BitVec::sdiv(&bv(w, x), &bv(w, y))),
        "srem" => out_bv(BitVec::srem(&bv(w, x), &bv(w, y))),
        "smod" => out_bv(BitVec::smod(&bv(w, x), &bv(w, y))),
        "shl" => out_bv(BitVec::shl(&bv(w, x), &bv(w, y))),
        "lshr" => out_bv(BitVec::lshr(&bv(w, x), &bv(w, y))),
        "neg" => out_bv(Ok(bv(w, x).neg())),
        "not" => out_bv(Ok(bv(w, x).not())),
        "slt" => out_bool(BitVec::slt(&bv(w, x), &bv(w, y))),
        "sle" => out_bool(BitVec::sle(&bv(w, x), &bv(w, y))),
        "ult" => out_bool(BitVec::ult(&bv(w, x), &bv(w, y))),
        "ule" => out_bool(BitVec::ule(&bv(w, x), &bv(w, y))),
        "of_int" => out_bv(Ok(BitVec::of_int(width, BigInt::from_str(x).unwrap()))),
        "to_int" => json!({"ok": {"int": bv(w, x).to_int().to_string()}}),
        "overflows" => json!({"ok": {"bool": BitVec::overflows(width, &BigInt::from_str(x).unwrap())}}),
        "zero_extend" => out_bv(Ok(BitVec::zero_extend(&bv(w, x), NonZeroU32::new(req["n"].as_u64().unwrap_or(1) as u32).unwrap()))),
        "concat" => out_bv(BitVec::concat(&bv(w, x), &bv(req["w2"].as_u64().unwrap_or(1) as u32, y))),
        "extract" => out_bv(bv(w, x).extract_bits(req["lo"].as_u64().unwrap_or(0) as u32, req["hi"].as_u64().unwrap_or(0) as u32)),
        "bvsaddo" | "bvssubo" | "bvsmulo" | "bvnego" => {
            use cedar_policy_symcc::term::{Term, TermPrim};
            use cedar_policy_symcc::term_factory as tf;
            let t1 = Term::Prim(TermPrim::Bitvec(bv(w, x)));
            let t2 = Term::Prim(TermPrim::Bitvec(bv(w, y)));
            let r = match req["op"].as_str().unwrap_or("") {
                "bvsaddo" => tf::bvsaddo(t1, t2),
                "bvssubo" => tf::bvssubo(t1, t2),
                "bvsmulo" => tf::bvsmulo(t1, t2),
                _ => tf::bvnego(t1),
            };
            match r {
                Term::Prim(TermPrim::Bool(b)) => json!({"ok": {"bool": b}}),
                other => json!({"err": format!("not folded to a constant: {other:?}")}),
            }
        }
        other => json!({"unknown_op": other}),
    }
}

fn main() {
    std::panic::set_hook(Box::new(|_| {}));
    let stdin = std::io::stdin();
    let mut out = std::io::stdout().lock();
    for line in stdin.lock().lines() {
        let Ok(line) = line else { break };
        if line.trim().is_empty() {
            continue;
        }
        let req: J = match serde_json::from_str(&line) {
            Ok(j) => j,
            Err(e) => {
                writeln!(out, "{}", json!({"bad_request": e.to_string()})).ok();
                continue;
            }
        };
        let ans = match std::panic::catch_unwind(|| handle(&req)) {
            Ok(a) => a,
            Err(p) => json!({"panic": p.downcast_ref::<String>().cloned().or_else(|| p.downcast_ref::<&str>().map(|s| s.to_string())).unwrap_or_else(|| "panic".into())}),
        };
        writeln!(out, "{}", ans).ok();
    }
}
