//! Native replay / translator-validation side of the verification machinery.
//! Reads one JSON request per line on stdin, runs the REAL cedar code (public APIs), prints one JSON answer per line.
//! Panics are caught and reported as {"panic": msg}.
use cedar_policy::{Authorizer, Context, Entities, EvalResult, Expression, PolicySet, Request};
use serde_json::{json, Value as J};
use std::io::{BufRead, Write};
use std::str::FromStr;

fn render(r: &EvalResult) -> J {
    match r {
        EvalResult::Bool(b) => json!({"kind": "bool", "v": b}),
        EvalResult::Long(i) => json!({"kind": "long", "v": i.to_string()}),
        EvalResult::String(s) => json!({"kind": "string", "v": s}),
        EvalResult::EntityUid(u) => json!({"kind": "entity", "v": u.to_string()}),
        EvalResult::Set(s) => json!({"kind": "set", "v": s.iter().map(render).collect::<Vec<_>>()}),
        EvalResult::Record(r) => json!({"kind": "record", "v": r.iter().map(|(k, v)| json!([k, render(v)])).collect::<Vec<_>>()}),
        EvalResult::ExtensionValue(s) => json!({"kind": "ext", "v": s}),
    }
}

fn err_class(e: &cedar_policy::EvaluationError) -> String {
    let d = format!("{e:?}");
    d.split(|c: char| !c.is_alphanumeric() && c != '_').next().unwrap_or("").to_string()
}

fn basic_request() -> Request {
    Request::new(
        r#"User::"alice""#.parse().unwrap(),
        r#"Action::"view""#.parse().unwrap(),
        r#"Photo::"p""#.parse().unwrap(),
        Context::empty(),
        None,
    )
    .unwrap()
}

fn eval(req: &J) -> J {
    let text = req["expr"].as_str().unwrap_or("");
    let expr = match Expression::from_str(text) {
        Ok(e) => e,
        Err(e) => return json!({"parse_error": e.to_string()}),
    };
    let entities = match req.get("entities") {
        Some(j) if !j.is_null() => match Entities::from_json_value(j.clone(), None) {
            Ok(e) => e,
            Err(e) => return json!({"input_error": e.to_string()}),
        },
        _ => Entities::empty(),
    };
    match cedar_policy::eval_expression(&basic_request(), &entities, &expr) {
        Ok(v) => json!({"ok": render(&v)}),
        Err(e) => json!({"err": err_class(&e), "msg": e.to_string()}),
    }
}

fn authorize(req: &J) -> J {
    let pset = match PolicySet::from_str(req["policies"].as_str().unwrap_or("")) {
        Ok(p) => p,
        Err(e) => return json!({"parse_error": e.to_string()}),
    };
    let entities = match req.get("entities") {
        Some(j) if !j.is_null() => match Entities::from_json_value(j.clone(), None) {
            Ok(e) => e,
            Err(e) => return json!({"input_error": e.to_string()}),
        },
        _ => Entities::empty(),
    };
    let resp = Authorizer::new().is_authorized(&basic_request(), &pset, &entities);
    let mut reasons: Vec<String> = resp.diagnostics().reason().map(|p| p.to_string()).collect();
    reasons.sort();
    let mut errors: Vec<String> = resp
        .diagnostics()
        .errors()
        .map(|e| match e {
            cedar_policy::AuthorizationError::PolicyEvaluationError(pe) => pe.policy_id().to_string(),
        })
        .collect();
    errors.sort();
    json!({"decision": format!("{:?}", resp.decision()), "reasons": reasons, "errors": errors})
}

fn summarize_partial(pr: &cedar_policy::PartialResponse) -> J {
    let ids = |it: Vec<String>| {
        let mut v = it;
        v.sort();
        v
    };
    let conc = pr.clone().concretize();
    let mut reasons: Vec<String> = conc.diagnostics().reason().map(|p| p.to_string()).collect();
    reasons.sort();
    let mut errors: Vec<String> = conc
        .diagnostics()
        .errors()
        .map(|e| match e {
            cedar_policy::AuthorizationError::PolicyEvaluationError(pe) => pe.policy_id().to_string(),
        })
        .collect();
    errors.sort();
    json!({
        "decision": pr.decision().map(|d| format!("{d:?}")),
        "may": ids(pr.may_be_determining().map(|p| p.id().to_string()).collect()),
        "must": ids(pr.must_be_determining().map(|p| p.id().to_string()).collect()),
        "satisfied": ids(pr.definitely_satisfied().map(|p| p.id().to_string()).collect()),
        "errored": ids(pr.definitely_errored().map(|p| p.to_string()).collect()),
        "nontrivial": ids(pr.nontrivial_residuals().map(|p| p.id().to_string()).collect()),
        "concretized": {"decision": format!("{:?}", conc.decision()), "reasons": reasons, "errors": errors},
    })
}

/// partial authorization of `policies` (may use `unknown("name")`), then optional reauthorization under `bindings`
/// ({name: restricted-expression text})
fn authorize_partial(req: &J) -> J {
    let pset = match PolicySet::from_str(req["policies"].as_str().unwrap_or("")) {
        Ok(p) => p,
        Err(e) => return json!({"parse_error": e.to_string()}),
    };
    let entities = Entities::empty();
    let auth = Authorizer::new();
    let pr = auth.is_authorized_partial(&basic_request(), &pset, &entities);
    let mut out = json!({"partial": summarize_partial(&pr)});
    if let Some(b) = req.get("bindings").and_then(|b| b.as_object()) {
        let mut owned: Vec<(String, cedar_policy::RestrictedExpression)> = vec![];
        for (k, v) in b {
            match cedar_policy::RestrictedExpression::from_str(v.as_str().unwrap_or("")) {
                Ok(e) => owned.push((k.clone(), e)),
                Err(e) => return json!({"input_error": e.to_string()}),
            }
        }
        match pr.reauthorize_with_bindings(owned.iter().map(|(k, v)| (k.as_str(), v)), &auth, &entities) {
            Ok(pr2) => out["reauthorized"] = summarize_partial(&pr2),
            Err(e) => out["reauthorize_error"] = json!(e.to_string()),
        }
    }
    out
}

fn handle(req: &J) -> J {
    match req["op"].as_str().unwrap_or("") {
        "eval" => eval(req),
        "authorize" => authorize(req),
        "authorize_partial" => authorize_partial(req),
        other => json!({"unknown_op": other}),
    }
}

fn main() {
    std::panic::set_hook(Box::new(|_| {}));
    let stdin = std::io::stdin();
    let mut out = std::io::stdout().lock();
    for line in stdin.lock().lines() {
        let line = match line {
            Ok(l) => l,
            Err(_) => break,
        };
        if line.trim().is_empty() {
            continue;
        }
        let req: J = match serde_json::from_str(&line) {
            Ok(j) => j,
            Err(e) => {
                writeln!(out, "{}", json!({"bad_request": e.to_string()})).ok();
                continue;
            }
        };
        let ans = match std::panic::catch_unwind(|| handle(&req)) {
            Ok(a) => a,
            Err(p) => {
                let msg = p
                    .downcast_ref::<String>()
                    .cloned()
                    .or_else(|| p.downcast_ref::<&str>().map(|s| s.to_string()))
                    .unwrap_or_else(|| "panic".to_string());
                json!({"panic": msg})
            }
        };
        writeln!(out, "{}", ans).ok();
    }
}
