//! Native replay / translator-validation side of the verification machinery.
//! Reads one JSON request per line on stdin, runs the REAL cedar code (public APIs), prints one JSON answer per line.
//! Panics are caught and reported as {"panic": msg}.
use cedar_policy::{Authorizer, Context, Entities, EvalResult, Expression, PolicySet, Request};
use serde_json::{json, Value as J};
use std::io::{BufRead, Write};
use std::str::FromStr;

fn render(r: &EvalResult) -> J {
    match r {
        EvalResult::Bool(b) => json!({"kind": "bool", "v": b}),
        EvalResult::Long(i) => json!({"kind": "long", "v": i.to_string()}),
        EvalResult::String(s) => json!({"kind": "string", "v": s}),
        EvalResult::EntityUid(u) => json!({"kind": "entity", "v": u.to_string()}),
        EvalResult::Set(s) => json!({"kind": "set", "v": s.iter().map(render).collect::<Vec<_>>()}),
        EvalResult::Record(r) => json!({"kind": "record", "v": r.iter().map(|(k, v)| json!([k, render(v)])).collect::<Vec<_>>()}),
        EvalResult::ExtensionValue(s) => json!({"kind": "ext", "v": s}),
    }
}

fn err_class(e: &cedar_policy::EvaluationError) -> String {
    let d = format!("{e:?}");
    d.split(|c: char| !c.is_alphanumeric() && c != '_').next().unwrap_or("").to_string()
}

fn basic_request() -> Request {
    Request::new(
        r#"User::"alice""#.parse().unwrap(),
        r#"Action::"view""#.parse().unwrap(),
        r#"Photo::"p""#.parse().unwrap(),
        Context::empty(),
        None,
    )
    .unwrap()
}

fn eval(req: &J) -> J {
    let text = req["expr"].as_str().unwrap_or("");
    let expr = match Expression::from_str(text) {
        Ok(e) => e,
        Err(e) => return json!({"parse_error": e.to_string()}),
    };
    let entities = match req.get("entities") {
        Some(j) if !j.is_null() => match Entities::from_json_value(j.clone(), None) {
            Ok(e) => e,
            Err(e) => return json!({"input_error": e.to_string()}),
        },
        _ => Entities::empty(),
    };
    match cedar_policy::eval_expression(&basic_request(), &entities, &expr) {
        Ok(v) => json!({"ok": render(&v)}),
        Err(e) => json!({"err": err_class(&e), "msg": e.to_string()}),
    }
}

fn authorize(req: &J) -> J {
    let pset = match PolicySet::from_str(req["policies"].as_str().unwrap_or("")) {
        Ok(p) => p,
        Err(e) => return json!({"parse_error": e.to_string()}),
    };
    let entities = match req.get("entities") {
        Some(j) if !j.is_null() => match Entities::from_json_value(j.clone(), None) {
            Ok(e) => e,
            Err(e) => return json!({"input_error": e.to_string()}),
        },
        _ => Entities::empty(),
    };
    let resp = Authorizer::new().is_authorized(&basic_request(), &pset, &entities);
    let mut reasons: Vec<String> = resp.diagnostics().reason().map(|p| p.to_string()).collect();
    reasons.sort();
    let mut errors: Vec<String> = resp
        .diagnostics()
        .errors()
        .map(|e| match e {
            cedar_policy::AuthorizationError::PolicyEvaluationError(pe) => pe.policy_id().to_string(),
        })
        .collect();
    errors.sort();
    json!({"decision": format!("{:?}", resp.decision()), "reasons": reasons, "errors": errors})
}

fn summarize_partial(pr: &cedar_policy::PartialResponse) -> J {
    let ids = |it: Vec<String>| {
        let mut v = it;
        v.sort();
        v
    };
    let conc = pr.clone().concretize();
    let mut reasons: Vec<String> = conc.diagnostics().reason().map(|p| p.to_string()).collect();
    reasons.sort();
    let mut errors: Vec<String> = conc
        .diagnostics()
        .errors()
        .map(|e| match e {
            cedar_policy::AuthorizationError::PolicyEvaluationError(pe) => pe.policy_id().to_string(),
        })
        .collect();
    errors.sort();
    json!({
        "decision": pr.decision().map(|d| format!("{d:?}")),
        "may": ids(pr.may_be_determining().map(|p| p.id().to_string()).collect()),
        "must": ids(pr.must_be_determining().map(|p| p.id().to_string()).collect()),
        "satisfied": ids(pr.definitely_satisfied().map(|p| p.id().to_string()).collect()),
        "errored": ids(pr.definitely_errored().map(|p| p.to_string()).collect()),
        "nontrivial": ids(pr.nontrivial_residuals().map(|p| p.id().to_string()).collect()),
        "concretized": {"decision": format!("{:?}", conc.decision()), "reasons": reasons, "errors": errors},
    })
}

/// partial authorization of `policies` (may use `unknown("name")`), then optional reauthorization under `bindings`
/// ({name: restricted-expression text})
fn authorize_partial(req: &J) -> J {
    let pset = match PolicySet::from_str(req["policies"].as_str().unwrap_or("")) {
        Ok(p) => p,
        Err(e) => return json!({"parse_error": e.to_string()}),
    };
    let entities = Entities::empty();
    let auth = Authorizer::new();
    let pr = auth.is_authorized_partial(&basic_request(), &pset, &entities);
    let mut out = json!({"partial": summarize_partial(&pr)});
    if let Some(b) = req.get("bindings").and_then(|b| b.as_object()) {
        let mut owned: Vec<(String, cedar_policy::RestrictedExpression)> = vec![];
        for (k, v) in b {
            match cedar_policy::RestrictedExpression::from_str(v.as_str().unwrap_or("")) {
                Ok(e) => owned.push((k.clone(), e)),
                Err(e) => return json!({"input_error": e.to_string()}),
            }
        }
        match pr.reauthorize_with_bindings(owned.iter().map(|(k, v)| (k.as_str(), v)), &auth, &entities) {
            Ok(pr2) => out["reauthorized"] = summarize_partial(&pr2),
            Err(e) => out["reauthorize_error"] = json!(e.to_string()),
        }
    }
    out
}

/// TPE on `policies` (schema: entity P, R; action a) with principal unknown and resource = R::"r"; returns every view
/// of the response as printed policies so that they can be compared.
fn tpe_views(req: &J) -> J {
    use cedar_policy::{EntityId, PartialEntities, PartialEntityUid, PartialRequest, PolicyId, Schema};
    let (schema, _) = match Schema::from_cedarschema_str(
        "entity G; entity P in [G] { n: Long, r: { x?: Long } }; entity R; action a appliesTo { principal: P, resource: R };",
    ) {
        Ok(s) => s,
        Err(e) => return json!({"input_error": e.to_string()}),
    };
    let entities = match Entities::from_json_value(
        json!([
            {"uid": {"type": "P", "id": "p"}, "attrs": {"n": 1, "r": {}}, "parents": []},
            {"uid": {"type": "R", "id": "r"}, "attrs": {}, "parents": []},
        ]),
        Some(&schema),
    ) {
        Ok(e) => e,
        Err(e) => return json!({"input_error": e.to_string()}),
    };
    let preq = match PartialRequest::new(
        PartialEntityUid::new("P".parse().unwrap(), None),
        r#"Action::"a""#.parse().unwrap(),
        PartialEntityUid::new("R".parse().unwrap(), Some(EntityId::new("r"))),
        None,
        &schema,
    ) {
        Ok(r) => r,
        Err(e) => return json!({"input_error": e.to_string()}),
    };
    let pe = match PartialEntities::from_concrete(entities.clone(), &schema) {
        Ok(p) => p,
        Err(e) => return json!({"input_error": e.to_string()}),
    };
    let pset = match PolicySet::from_str(req["policies"].as_str().unwrap_or("")) {
        Ok(p) => p,
        Err(e) => return json!({"parse_error": e.to_string()}),
    };
    let resp = match pset.tpe(&preq, &pe, &schema) {
        Ok(r) => r,
        Err(e) => return json!({"tpe_error": e.to_string()}),
    };
    let norm = |s: String| s.split_whitespace().collect::<Vec<_>>().join(" ");
    let mut policies: Vec<String> = resp.policies().map(|p| format!("{}: {}", p.id(), norm(p.to_string()))).collect();
    policies.sort();
    let ps = resp.policy_set();
    let mut set: Vec<String> = ps.policies().map(|p| format!("{}: {}", p.id(), norm(p.to_string()))).collect();
    set.sort();
    let mut by_id: Vec<String> = vec![];
    for p in pset.policies() {
        if let Some(q) = resp.get_policy(&PolicyId::new(p.id().to_string())) {
            by_id.push(format!("{}: {}", q.id(), norm(q.to_string())));
        }
    }
    by_id.sort();
    let mut reason: Option<Vec<String>> = None;
    if resp.decision().is_some() {
        let mut v: Vec<String> = resp.reason().map(|r| r.map(|p| p.to_string()).collect()).unwrap_or_default();
        v.sort();
        reason = Some(v);
    }
    let ids = |it: Vec<String>| {
        let mut v = it;
        v.sort();
        v
    };
    // reauthorize with the completion principal = P::"p"
    let creq = Request::new(
        r#"P::"p""#.parse().unwrap(),
        r#"Action::"a""#.parse().unwrap(),
        r#"R::"r""#.parse().unwrap(),
        Context::empty(),
        Some(&schema),
    )
    .unwrap();
    let summarize = |r: &cedar_policy::Response| -> J {
        let mut rs: Vec<String> = r.diagnostics().reason().map(|p| p.to_string()).collect();
        rs.sort();
        let mut es: Vec<String> = r
            .diagnostics()
            .errors()
            .map(|e| match e {
                cedar_policy::AuthorizationError::PolicyEvaluationError(pe) => pe.policy_id().to_string(),
            })
            .collect();
        es.sort();
        json!({"decision": format!("{:?}", r.decision()), "reasons": rs, "errors": es})
    };
    let re = match resp.reauthorize(&creq, &entities) {
        Ok(r) => summarize(&r),
        Err(e) => json!({"error": e.to_string()}),
    };
    // a second consistent completion: a principal that has no entity in the store
    let creq2 = Request::new(
        r#"P::"absent""#.parse().unwrap(),
        r#"Action::"a""#.parse().unwrap(),
        r#"R::"r""#.parse().unwrap(),
        Context::empty(),
        Some(&schema),
    )
    .unwrap();
    let re2 = match resp.reauthorize(&creq2, &entities) {
        Ok(r) => summarize(&r),
        Err(e) => json!({"error": e.to_string()}),
    };
    let scratch2 = summarize(&Authorizer::new().is_authorized(&creq2, &pset, &entities));
    // a concrete store that is NOT a completion of the partial one: P::"p" gets an ancestor the partial entity does not list
    let mut extra = J::Null;
    if req["extra_parent"].as_bool().unwrap_or(false) {
        let ents2 = Entities::from_json_value(
            json!([
                {"uid": {"type": "P", "id": "p"}, "attrs": {"n": 1, "r": {}}, "parents": [{"type": "G", "id": "g"}]},
                {"uid": {"type": "G", "id": "g"}, "attrs": {}, "parents": []},
                {"uid": {"type": "R", "id": "r"}, "attrs": {}, "parents": []},
            ]),
            Some(&schema),
        );
        extra = match ents2 {
            Ok(e2) => match resp.reauthorize(&creq, &e2) {
                Ok(r) => json!({"decision": format!("{:?}", r.decision())}),
                Err(e) => json!({"error": e.to_string()}),
            },
            Err(e) => json!({"input_error": e.to_string()}),
        };
    }
    let scratch = Authorizer::new().is_authorized(&creq, &pset, &entities);
    json!({
        "decision": resp.decision().map(|d| format!("{d:?}")),
        "reason": reason,
        "policies": policies, "policy_set": set, "get_policy": by_id,
        "true_permits": ids(resp.true_permits().map(|p| p.to_string()).collect()),
        "false_permits": ids(resp.false_permits().map(|p| p.to_string()).collect()),
        "error_permits": ids(resp.error_permits().map(|p| p.to_string()).collect()),
        "residual_permits": ids(resp.residual_permits().map(|p| p.to_string()).collect()),
        "true_forbids": ids(resp.true_forbids().map(|p| p.to_string()).collect()),
        "false_forbids": ids(resp.false_forbids().map(|p| p.to_string()).collect()),
        "error_forbids": ids(resp.error_forbids().map(|p| p.to_string()).collect()),
        "residual_forbids": ids(resp.residual_forbids().map(|p| p.to_string()).collect()),
        "reauthorize": re,
        "reauthorize_extra_parent": extra,
        "from_scratch": summarize(&scratch),
        "reauthorize_absent_principal": re2,
        "from_scratch_absent_principal": scratch2,
    })
}

/// apply a sequence of edit operations to a cedar_policy::PolicySet; after each one report Ok/Err and the observable state
fn policyset_ops(req: &J) -> J {
    use cedar_policy::{EntityUid, Policy, PolicyId, SlotId, Template};
    use std::collections::HashMap;
    let mut ps = PolicySet::new();
    let mut steps = vec![];
    for op in req["ops"].as_array().cloned().unwrap_or_default() {
        let kind = op["op"].as_str().unwrap_or("");
        let id = op["id"].as_str().unwrap_or("").to_string();
        let pid = || PolicyId::new(id.clone());
        let res: Result<(), String> = match kind {
            "add_static" => Policy::parse(Some(pid()), "permit(principal, action, resource);")
                .map_err(|e| e.to_string())
                .and_then(|p| ps.add(p).map_err(|e| e.to_string())),
            "add_template" => Template::parse(Some(pid()), "permit(principal == ?principal, action, resource);")
                .map_err(|e| e.to_string())
                .and_then(|t| ps.add_template(t).map_err(|e| e.to_string())),
            "link" => {
                let tid = PolicyId::new(op["template"].as_str().unwrap_or(""));
                let mut vals = HashMap::new();
                if op["bind"].as_bool().unwrap_or(true) {
                    vals.insert(SlotId::principal(), EntityUid::from_str(r#"User::"alice""#).unwrap());
                }
                ps.link(tid, pid(), vals).map_err(|e| e.to_string())
            }
            "unlink" => ps.unlink(pid()).map(|_| ()).map_err(|e| e.to_string()),
            "remove_static" => ps.remove_static(pid()).map(|_| ()).map_err(|e| e.to_string()),
            "remove_template" => ps.remove_template(pid()).map(|_| ()).map_err(|e| e.to_string()),
            other => Err(format!("unknown op {other}")),
        };
        let mut policies: Vec<String> = ps
            .policies()
            .map(|p| format!("{}<-{}", p.id(), p.template_id().map(|t| t.to_string()).unwrap_or_else(|| "static".into())))
            .collect();
        policies.sort();
        let mut templates: Vec<String> = ps.templates().map(|t| t.id().to_string()).collect();
        templates.sort();
        let mut links = serde_json::Map::new();
        for t in &templates {
            let mut l: Vec<String> = match ps.get_linked_policies(PolicyId::new(t.clone())) {
                Ok(it) => it.map(|p| p.to_string()).collect(),
                Err(_) => vec!["<error>".into()],
            };
            l.sort();
            links.insert(t.clone(), json!(l));
        }
        // what authorization considers: every policy is a permit that is satisfied by the basic request when its scope matches
        let resp = Authorizer::new().is_authorized(&basic_request(), &ps, &Entities::empty());
        let mut reasons: Vec<String> = resp.diagnostics().reason().map(|p| p.to_string()).collect();
        reasons.sort();
        // the links index as seen through get_linked_policies, for every id of the universe (not only the live templates)
        let mut by_id = serde_json::Map::new();
        for i in req["universe"].as_array().cloned().unwrap_or_default() {
            let i = i.as_str().unwrap_or("").to_string();
            let l: J = match ps.get_linked_policies(PolicyId::new(i.clone())) { Ok(it) => { let mut v: Vec<String> = it.map(|p| p.to_string()).collect(); v.sort(); json!(v) } Err(_) => json!("<error>") };
            by_id.insert(i, l);
        }
        steps.push(json!({"ok": res.is_ok(), "err": res.err(), "policies": policies, "templates": templates, "links": links, "reasons": reasons, "linked_by_id": by_id}));
    }
    json!({"steps": steps})
}

/// partial interpretation of one expression by the core evaluator (unknown("x") allowed); entities optional, `partial`: partial store
fn peval(req: &J) -> J {
    use cedar_policy_core::ast::{Context, EntityUID, Expr, PartialValue, Request, RequestSchemaAllPass};
    use cedar_policy_core::entities::{Entities as CoreEntities, EntityJsonParser, NoEntitiesSchema, TCComputation};
    use cedar_policy_core::evaluator::Evaluator;
    use cedar_policy_core::extensions::Extensions;
    let expr: Expr = match req["expr"].as_str().unwrap_or("").parse() {
        Ok(e) => e,
        Err(e) => return json!({"parse_error": format!("{e}")}),
    };
    let exts = Extensions::all_available();
    let uid = |s: &str| -> EntityUID { s.parse().unwrap() };
    let mut entities = match req.get("entities") {
        Some(j) if !j.is_null() => {
            let parser: EntityJsonParser<'_, '_, NoEntitiesSchema> = EntityJsonParser::new(None, exts, TCComputation::ComputeNow);
            match parser.from_json_value(j.clone()) {
                Ok(e) => e,
                Err(e) => return json!({"input_error": e.to_string()}),
            }
        }
        _ => CoreEntities::new(),
    };
    if req["partial"].as_bool().unwrap_or(false) {
        entities = entities.partial();
    }
    // optional store edit AFTER the store was made partial (the mode must survive it)
    match req["edit"].as_str().unwrap_or("") {
        "remove" => {
            entities = match entities.remove_entities(vec![uid(r#"User::"nobody""#)], TCComputation::ComputeNow) {
                Ok(e) => e,
                Err(e) => return json!({"input_error": e.to_string()}),
            }
        }
        "add" | "upsert" => {
            let e = std::sync::Arc::new(cedar_policy_core::ast::Entity::with_uid(uid(r#"User::"extra""#)));
            let r = if req["edit"] == "add" {
                entities.add_entities(vec![e], None::<&NoEntitiesSchema>, TCComputation::ComputeNow, exts)
            } else {
                entities.upsert_entities(vec![e], None::<&NoEntitiesSchema>, TCComputation::ComputeNow, exts)
            };
            entities = match r {
                Ok(e) => e,
                Err(e) => return json!({"input_error": e.to_string()}),
            }
        }
        _ => {}
    }
    let q = match Request::new(
        (uid(r#"User::"alice""#), None),
        (uid(r#"Action::"view""#), None),
        (uid(r#"Photo::"p""#), None),
        Context::empty(),
        None::<&RequestSchemaAllPass>,
        exts,
    ) {
        Ok(q) => q,
        Err(e) => return json!({"input_error": e.to_string()}),
    };
    let eval = Evaluator::new(q, &entities, exts);
    match eval.partial_interpret(&expr, &std::collections::HashMap::new()) {
        Ok(PartialValue::Value(v)) => {
            let kind = match v.value_kind() {
                cedar_policy_core::ast::ValueKind::Lit(cedar_policy_core::ast::Literal::Bool(_)) => "bool",
                cedar_policy_core::ast::ValueKind::Lit(cedar_policy_core::ast::Literal::Long(_)) => "long",
                cedar_policy_core::ast::ValueKind::Lit(cedar_policy_core::ast::Literal::String(_)) => "string",
                cedar_policy_core::ast::ValueKind::Lit(cedar_policy_core::ast::Literal::EntityUID(_)) => "entity",
                cedar_policy_core::ast::ValueKind::Set(_) => "set",
                cedar_policy_core::ast::ValueKind::Record(_) => "record",
                cedar_policy_core::ast::ValueKind::ExtensionValue(_) => "ext",
            };
            json!({"value": {"kind": kind, "v": v.to_string()}})
        }
        Ok(PartialValue::Residual(e)) => json!({"residual": e.to_string()}),
        Err(e) => {
            let d = format!("{e:?}");
            let class: String = d.split(|c: char| !c.is_alphanumeric() && c != '_').next().unwrap_or("").to_string();
            json!({"err": class, "msg": e.to_string()})
        }
    }
}

/// level validation of one policy against a fixed schema with entity chains: returns whether it passes at each level 0..=4
fn validate_level(req: &J) -> J {
    use cedar_policy::{Schema, ValidationMode, Validator};
    let default_schema = "entity User in [Group] { manager: User, name: String, info: { boss: User, n: Long } } tags String; entity Group { owner: User }; entity Photo { owner: User }; \
         action view appliesTo { principal: User, resource: Photo, context: { who: User } };";
    let (schema, _) = match Schema::from_cedarschema_str(req["schema"].as_str().unwrap_or(default_schema)) {
        Ok(s) => s,
        Err(e) => return json!({"input_error": e.to_string()}),
    };
    let pset = match PolicySet::from_str(req["policy"].as_str().unwrap_or("")) {
        Ok(p) => p,
        Err(e) => return json!({"parse_error": e.to_string()}),
    };
    let v = Validator::new(schema);
    let plain = v.validate(&pset, ValidationMode::Strict);
    let mut passes = vec![];
    for lvl in 0..=4u32 {
        let r = v.validate_with_level(&pset, ValidationMode::Strict, lvl);
        passes.push(r.validation_passed());
    }
    json!({"typechecks": plain.validation_passed(), "passes_at_level": passes})
}

/// schema conformance of entities and of a request through every public entry point that takes a schema.
/// in: {schema: cedarschema text, entities: JSON array (optional), request: {principal, action, resource, context: JSON object} (optional)}
/// out: {entities: {entry point: "ok" | error text}, request: {entry point: "ok" | error text}}
fn conformance(req: &J) -> J {
    use cedar_policy::{Context, Entity, EntityUid, Schema};
    let (schema, _) = match Schema::from_cedarschema_str(req["schema"].as_str().unwrap_or("")) {
        Ok(s) => s,
        Err(e) => return json!({"input_error": format!("schema: {e}")}),
    };
    let mut out = serde_json::Map::new();
    fn show<T, E: std::fmt::Display>(r: Result<T, E>) -> J {
        match r {
            Ok(_) => json!("ok"),
            Err(e) => json!(format!("error: {e}")),
        }
    }
    if let Some(ents) = req.get("entities") {
        let mut m = serde_json::Map::new();
        let text = ents.to_string();
        m.insert("Entities::from_json_str".into(), show(Entities::from_json_str(&text, Some(&schema))));
        m.insert("Entities::from_json_value".into(), show(Entities::from_json_value(ents.clone(), Some(&schema))));
        m.insert("Entities::add_entities_from_json_str".into(), show(Entities::empty().add_entities_from_json_str(&text, Some(&schema))));
        // schema-less parse (explicit forms only), then the entry points that take already-built entities
        match Entities::from_json_value(ents.clone(), None) {
            Ok(plain) => {
                let list: Vec<Entity> = plain.iter().cloned().collect();
                m.insert("Entities::from_entities".into(), show(Entities::from_entities(list.clone(), Some(&schema))));
                m.insert("Entities::add_entities".into(), show(Entities::empty().add_entities(list.clone(), Some(&schema))));
                m.insert("Entities::upsert_entities".into(), show(Entities::empty().upsert_entities(list.clone(), Some(&schema))));
            }
            Err(e) => {
                m.insert("schemaless_parse".into(), json!(format!("error: {e}")));
            }
        }
        if let Some(arr) = ents.as_array() {
            if arr.len() == 1 {
                m.insert("Entity::from_json_value".into(), show(Entity::from_json_value(arr[0].clone(), Some(&schema))));
            }
        }
        out.insert("entities".into(), J::Object(m));
    }
    if let Some(r) = req.get("partial_request") {
        use cedar_policy_core::ast::{EntityUID as CoreUid, EntityUIDEntry};
        use cedar_policy_core::extensions::Extensions;
        use cedar_policy_core::validator::ValidatorSchema;
        let mut m = serde_json::Map::new();
        match ValidatorSchema::from_cedarschema_str(req["schema"].as_str().unwrap_or(""), Extensions::all_available()) {
            Err(e) => { m.insert("input_error".into(), json!(format!("schema: {e}"))); }
            Ok((vs, _)) => {
                let entry = |t: &str| -> Result<EntityUIDEntry, String> { if t == "?" { Ok(EntityUIDEntry::unknown()) } else { t.parse::<CoreUid>().map(|u| EntityUIDEntry::known(u, None)).map_err(|e| e.to_string()) } };
                match (entry(r["principal"].as_str().unwrap_or("?")), entry(r["action"].as_str().unwrap_or("?")), entry(r["resource"].as_str().unwrap_or("?"))) {
                    (Ok(p), Ok(a), Ok(rs)) => {
                        let cx = match r.get("context") { Some(c) if !c.is_null() => cedar_policy_core::entities::json::ContextJsonParser::new(None::<&cedar_policy_core::entities::json::NullContextSchema>, Extensions::all_available()).from_json_value(c.clone()).ok(), _ => None };
                        m.insert("Request::new_with_unknowns".into(), show(cedar_policy_core::ast::Request::new_with_unknowns(p, a, rs, cx, Some(&vs), Extensions::all_available())));
                    }
                    _ => { m.insert("input_error".into(), json!("bad uid")); }
                }
            }
        }
        out.insert("request".into(), J::Object(m));
    }
    // an entity built through the API (not parsed): {api_entity: {uid, attrs: {name: long}, tags: {name: long}}}
    if let Some(e) = req.get("api_entity") {
        use cedar_policy::RestrictedExpression;
        let mut m = serde_json::Map::new();
        let uid = EntityUid::from_str(e["uid"].as_str().unwrap_or(""));
        let pairs = |j: &J| -> Vec<(String, RestrictedExpression)> { j.as_object().map(|o| o.iter().map(|(k, v)| (k.clone(), RestrictedExpression::new_long(v.as_i64().unwrap_or(0)))).collect()).unwrap_or_default() };
        match uid {
            Ok(uid) => match Entity::new_with_tags(uid, pairs(&e["attrs"]), std::collections::HashSet::<EntityUid>::new(), pairs(&e["tags"])) {
                Ok(ent) => {
                    m.insert("Entities::from_entities".into(), show(Entities::from_entities([ent.clone()], Some(&schema))));
                    m.insert("Entities::add_entities".into(), show(Entities::empty().add_entities([ent.clone()], Some(&schema))));
                    m.insert("Entities::upsert_entities".into(), show(Entities::empty().upsert_entities([ent], Some(&schema))));
                }
                Err(err) => { m.insert("input_error".into(), json!(err.to_string())); }
            },
            Err(err) => { m.insert("input_error".into(), json!(err.to_string())); }
        }
        out.insert("entities".into(), J::Object(m));
    }
    if let Some(r) = req.get("request") {
        let mut m = serde_json::Map::new();
        let p = EntityUid::from_str(r["principal"].as_str().unwrap_or(""));
        let a = EntityUid::from_str(r["action"].as_str().unwrap_or(""));
        let rs = EntityUid::from_str(r["resource"].as_str().unwrap_or(""));
        match (p, a, rs) {
            (Ok(p), Ok(a), Ok(rs)) => {
                let cj = r.get("context").cloned().unwrap_or(json!({}));
                // context built without the schema (explicit forms), validated by Request::new
                match Context::from_json_value(cj.clone(), None) {
                    Ok(c) => {
                        m.insert("Request::new".into(), show(Request::new(p.clone(), a.clone(), rs.clone(), c.clone(), Some(&schema))));
                        m.insert("RequestBuilder".into(), show(Request::builder().principal(p.clone()).action(a.clone()).resource(rs.clone()).context(c).schema(&schema).build()));
                    }
                    Err(e) => {
                        m.insert("schemaless_context".into(), json!(format!("error: {e}")));
                    }
                }
                // context built with the schema
                match Context::from_json_value(cj, Some((&schema, &a))) {
                    Ok(c) => {
                        m.insert("Context::from_json_value+Request::new".into(), show(Request::new(p, a, rs, c, Some(&schema))));
                    }
                    Err(e) => {
                        m.insert("Context::from_json_value+Request::new".into(), json!(format!("error: {e}")));
                    }
                }
            }
            _ => {
                m.insert("input_error".into(), json!("bad uid"));
            }
        }
        out.insert("request".into(), J::Object(m));
    }
    J::Object(out)
}

/// equality of two policies / templates given as text with the same id: {a, b, template: bool} -> {equal: bool}
fn policy_eq(req: &J) -> J {
    let id = cedar_policy::PolicyId::new("p0");
    let (a, b) = (req["a"].as_str().unwrap_or(""), req["b"].as_str().unwrap_or(""));
    if req["template"].as_bool().unwrap_or(false) {
        match (cedar_policy::Template::parse(Some(id.clone()), a), cedar_policy::Template::parse(Some(id), b)) {
            (Ok(x), Ok(y)) => json!({"equal": x == y}),
            (x, y) => json!({"parse_error": format!("{:?} {:?}", x.err().map(|e| e.to_string()), y.err().map(|e| e.to_string()))}),
        }
    } else {
        match (cedar_policy::Policy::parse(Some(id.clone()), a), cedar_policy::Policy::parse(Some(id), b)) {
            (Ok(x), Ok(y)) => json!({"equal": x == y}),
            (x, y) => json!({"parse_error": format!("{:?} {:?}", x.err().map(|e| e.to_string()), y.err().map(|e| e.to_string()))}),
        }
    }
}

/// transitive closure of a small entity graph through cedar_policy_core::entities::Entities::from_entities.
/// in: {nodes: n, keys: nk (>= n; ids n..nk have no entity), edges: [[i, j], ..], mode: "compute" | "enforce"}
/// out: {ok: bool, err: text, desc: [[bool; nk]; n]}  (desc[i][j] = entity i is_descendant_of id j)
fn tc(req: &J) -> J {
    use cedar_policy_core::ast::{Entity, EntityUID};
    use cedar_policy_core::entities::{Entities, NoEntitiesSchema, TCComputation};
    use cedar_policy_core::extensions::Extensions;
    let n = req["nodes"].as_u64().unwrap_or(0) as usize;
    let nk = req["keys"].as_u64().unwrap_or(n as u64) as usize;
    let uid = |i: usize| EntityUID::with_eid_and_type("N", &format!("n{i}")).unwrap();
    let mut ents = vec![];
    for i in 0..n {
        let mut parents = std::collections::HashSet::new();
        for e in req["edges"].as_array().cloned().unwrap_or_default() {
            if e[0].as_u64() == Some(i as u64) {
                parents.insert(uid(e[1].as_u64().unwrap_or(0) as usize));
            }
        }
        // `direct` (optional): which of the links are direct parents; the others are stored as indirect ancestors
        let mut indirect = std::collections::HashSet::new();
        if let Some(direct) = req["direct"].as_array() {
            let is_direct = |j: usize| direct.iter().any(|d| d[0].as_u64() == Some(i as u64) && d[1].as_u64() == Some(j as u64));
            for j in 0..nk {
                if parents.contains(&uid(j)) && !is_direct(j) {
                    parents.remove(&uid(j));
                    indirect.insert(uid(j));
                }
            }
        }
        ents.push(Entity::new_with_attr_partial_value(uid(i), [], indirect, parents, []));
    }
    let mode = if req["mode"].as_str() == Some("enforce") { TCComputation::EnforceAlreadyComputed } else { TCComputation::ComputeNow };
    match Entities::from_entities(ents, None::<&NoEntitiesSchema>, mode, Extensions::all_available()) {
        Ok(es) => {
            let mut desc = vec![];
            for i in 0..n {
                let e = es.entity(&uid(i));
                let row: Vec<bool> = (0..nk)
                    .map(|j| match &e {
                        cedar_policy_core::entities::Dereference::Data(e) => e.is_descendant_of(&uid(j)),
                        _ => false,
                    })
                    .collect();
                desc.push(row);
            }
            json!({"ok": true, "desc": desc})
        }
        Err(e) => json!({"ok": false, "err": e.to_string()}),
    }
}

/// an entity store built from parent links (closure computed by the library), then ONE edit, through the public cedar_policy API.
/// in: {present: [ids], keys: nk, edges: [[i, j], ..] (parents of the initial entities), edit: {op: "add"|"upsert"|"remove", id: i, parents: [j, ..]}}
/// out: {ok, err, present: [ids], desc: {id: [bool; nk]}}
fn tc_edit(req: &J) -> J {
    use cedar_policy::{Entity, EntityUid};
    use std::collections::{HashMap, HashSet};
    let nk = req["keys"].as_u64().unwrap_or(0) as usize;
    let uid = |i: usize| EntityUid::from_str(&format!("N::\"n{i}\"")).unwrap();
    let mk = |i: usize, ps: Vec<usize>| Entity::new_no_attrs(uid(i), ps.into_iter().map(uid).collect::<HashSet<_>>());
    let mut ents = vec![];
    let present: Vec<usize> = req["present"].as_array().map(|a| a.iter().filter_map(|x| x.as_u64()).map(|x| x as usize).collect()).unwrap_or_default();
    for &i in &present {
        let ps: Vec<usize> = req["edges"].as_array().cloned().unwrap_or_default().iter().filter(|e| e[0].as_u64() == Some(i as u64)).filter_map(|e| e[1].as_u64()).map(|x| x as usize).collect();
        ents.push(mk(i, ps));
    }
    let store = match Entities::from_entities(ents, None) {
        Ok(s) => s,
        Err(e) => return json!({"initial_error": e.to_string()}),
    };
    let ed = &req["edit"];
    let id = ed["id"].as_u64().unwrap_or(0) as usize;
    let ps: Vec<usize> = ed["parents"].as_array().map(|a| a.iter().filter_map(|x| x.as_u64()).map(|x| x as usize).collect()).unwrap_or_default();
    // `more`: further entities of the same call (a batch), in order after the first
    let mut batch = vec![mk(id, ps)];
    for m in ed["more"].as_array().cloned().unwrap_or_default() {
        let mid = m["id"].as_u64().unwrap_or(0) as usize;
        let mps: Vec<usize> = m["parents"].as_array().map(|a| a.iter().filter_map(|x| x.as_u64()).map(|x| x as usize).collect()).unwrap_or_default();
        batch.push(mk(mid, mps));
    }
    let r = match ed["op"].as_str().unwrap_or("") {
        "add" => store.add_entities(batch, None),
        "upsert" => store.upsert_entities(batch, None),
        "remove" => store.remove_entities([uid(id)]),
        other => return json!({"unknown_edit": other}),
    };
    match r {
        Ok(es) => {
            let mut desc: HashMap<String, Vec<bool>> = HashMap::new();
            let mut pres = vec![];
            for i in 0..nk {
                if let Some(e) = es.get(&uid(i)) {
                    pres.push(i);
                    desc.insert(i.to_string(), (0..nk).map(|j| es.is_ancestor_of(&uid(j), &e.uid())).collect());
                }
            }
            json!({"ok": true, "present": pres, "desc": desc})
        }
        Err(e) => json!({"ok": false, "err": e.to_string()}),
    }
}

/// batched (loader-driven) authorization vs ordinary authorization over the same store, for several iteration budgets.
/// in: {schema, policies, entities: JSON array, request: {principal, action, resource, context}, budgets: [u32]}
/// out: {ordinary: "Allow"|"Deny", batched: [{budget, result: "Allow"|"Deny"|"insufficient"|"error: ..", loader_calls, requested: [[uids of call 1], ..]}]}
fn batched(req: &J) -> J {
    use cedar_policy::{Authorizer, Context, Entity, EntityLoader, EntityUid, Schema, TestEntityLoader};
    use std::collections::{HashMap, HashSet};
    struct Counting<'a> {
        inner: TestEntityLoader<'a>,
        store: &'a Entities,
        prefetch: bool,
        delivered: HashSet<EntityUid>,
        calls: u32,
        requested: Vec<Vec<String>>,
    }
    impl EntityLoader for Counting<'_> {
        fn load_entities(&mut self, uids: &HashSet<EntityUid>) -> HashMap<EntityUid, Option<Entity>> {
            self.calls += 1;
            let mut v: Vec<String> = uids.iter().map(|u| u.to_string()).collect();
            v.sort();
            self.requested.push(v);
            let mut out = self.inner.load_entities(uids);
            if self.prefetch {
                // the documented contract allows a loader to return more than it was asked for: also hand over the ancestors of what was requested
                let extra: Vec<EntityUid> = out.values().flatten().flat_map(|e| self.store.ancestors(&e.uid()).into_iter().flatten().cloned().collect::<Vec<_>>()).collect();
                for u in extra {
                    // (never the same entity twice: is_authorized_batched rejects an entity it already holds as a duplicate)
                    if self.delivered.contains(&u) {
                        continue;
                    }
                    if let Some(e) = self.store.get(&u) {
                        out.entry(u).or_insert_with(|| Some(e.clone()));
                    }
                }
            }
            for u in out.keys() {
                self.delivered.insert(u.clone());
            }
            out
        }
    }
    let (schema, _) = match Schema::from_cedarschema_str(req["schema"].as_str().unwrap_or("")) {
        Ok(s) => s,
        Err(e) => return json!({"input_error": format!("schema: {e}")}),
    };
    let pset = match PolicySet::from_str(req["policies"].as_str().unwrap_or("")) {
        Ok(p) => p,
        Err(e) => return json!({"input_error": format!("policies: {e}")}),
    };
    let ents = match Entities::from_json_value(req["entities"].clone(), Some(&schema)) {
        Ok(e) => e,
        Err(e) => return json!({"input_error": format!("entities: {e}")}),
    };
    let r = &req["request"];
    let (p, a, rs) = match (
        EntityUid::from_str(r["principal"].as_str().unwrap_or("")),
        EntityUid::from_str(r["action"].as_str().unwrap_or("")),
        EntityUid::from_str(r["resource"].as_str().unwrap_or("")),
    ) {
        (Ok(p), Ok(a), Ok(rs)) => (p, a, rs),
        _ => return json!({"input_error": "bad uid"}),
    };
    let cx = match Context::from_json_value(r.get("context").cloned().unwrap_or(json!({})), Some((&schema, &a))) {
        Ok(c) => c,
        Err(e) => return json!({"input_error": format!("context: {e}")}),
    };
    let q = match Request::new(p, a, rs, cx, Some(&schema)) {
        Ok(q) => q,
        Err(e) => return json!({"input_error": format!("request: {e}")}),
    };
    let ordinary = Authorizer::new().is_authorized(&q, &pset, &ents);
    let mut out = vec![];
    for b in req["budgets"].as_array().cloned().unwrap_or_default() {
        let budget = b.as_u64().unwrap_or(0) as u32;
        let mut loader = Counting { inner: TestEntityLoader::new(&ents), store: &ents, prefetch: req["prefetch"].as_bool().unwrap_or(false), delivered: HashSet::new(), calls: 0, requested: vec![] };
        let res = match pset.is_authorized_batched(&q, &schema, &mut loader, budget) {
            Ok(d) => format!("{d:?}"),
            Err(e) => {
                let t = e.to_string();
                if t.to_lowercase().contains("iteration") { "insufficient".to_string() } else { format!("error: {t}") }
            }
        };
        out.push(json!({"budget": budget, "result": res, "loader_calls": loader.calls, "requested": loader.requested}));
    }
    json!({"ordinary": format!("{:?}", ordinary.decision()), "batched": out})
}

/// policy text -> Policy -> JSON (EST) -> Policy: equal to the original?  {policy} -> {equal, back, json}
fn est_roundtrip(req: &J) -> J {
    let id = cedar_policy::PolicyId::new("p0");
    let p = match cedar_policy::Policy::parse(Some(id.clone()), req["policy"].as_str().unwrap_or("")) {
        Ok(p) => p,
        Err(e) => return json!({"parse_error": e.to_string()}),
    };
    if req["format"].as_str() == Some("PST") {
        let pst = match p.to_pst() {
            Ok(x) => x,
            Err(e) => return json!({"to_pst_error": e.to_string()}),
        };
        return match cedar_policy::Policy::from_pst(pst.clone()) {
            Ok(q) => {
                // ids may differ: compare after giving the rebuilt policy the original id
                let q = q.new_id(id.clone());
                let printed = q.to_string();
                let reparsed = cedar_policy::Policy::parse(Some(id), &printed);
                json!({"equal": p == q, "back": printed, "printed_equal": reparsed.map(|r| r == p).unwrap_or(false)})
            }
            Err(e) => json!({"equal": false, "back": format!("error: {e}")}),
        };
    }
    let j = match p.to_json() {
        Ok(j) => j,
        Err(e) => return json!({"to_json_error": e.to_string()}),
    };
    match cedar_policy::Policy::from_json(Some(id.clone()), j.clone()) {
        Ok(q) => {
            // a policy built from JSON prints through the EST printer: the text has to denote the same policy
            let printed = q.to_string();
            let reparsed = cedar_policy::Policy::parse(Some(id), &printed);
            json!({"equal": p == q, "back": printed, "json": j, "printed_equal": reparsed.map(|r| r == p).unwrap_or(false)})
        }
        Err(e) => json!({"equal": false, "back": format!("error: {e}"), "json": j}),
    }
}

/// two policy sets built by edit operations (with policy texts), then self.merge(other, rename).
/// out: {ok, err, renaming: n, n_policies, n_templates, expected_policies, expected_templates, dangling_links, shared_ids, changed}
fn policyset_merge(req: &J) -> J {
    use cedar_policy::{EntityUid, Policy, PolicyId, SlotId, Template};
    use std::collections::{BTreeSet, HashMap};
    fn build(ops: &J) -> Result<PolicySet, String> {
        let mut ps = PolicySet::new();
        for op in ops.as_array().cloned().unwrap_or_default() {
            let id = PolicyId::new(op["id"].as_str().unwrap_or(""));
            match op["op"].as_str().unwrap_or("") {
                "add_static" => {
                    let p = Policy::parse(Some(id), op["text"].as_str().unwrap_or("permit(principal, action, resource);")).map_err(|e| e.to_string())?;
                    ps.add(p).map_err(|e| e.to_string())?
                }
                "add_template" => {
                    let t = Template::parse(Some(id), op["text"].as_str().unwrap_or("permit(principal == ?principal, action, resource);")).map_err(|e| e.to_string())?;
                    ps.add_template(t).map_err(|e| e.to_string())?
                }
                "link" => {
                    let mut vals = HashMap::new();
                    vals.insert(SlotId::principal(), EntityUid::from_str(r#"User::"alice""#).unwrap());
                    ps.link(PolicyId::new(op["template"].as_str().unwrap_or("")), id, vals).map_err(|e| e.to_string())?
                }
                other => return Err(format!("unknown op {other}")),
            }
        }
        Ok(ps)
    }
    fn describe(ps: &PolicySet) -> (BTreeSet<String>, BTreeSet<String>) {
        (
            ps.policies().map(|p| format!("{} := {}", p.id(), p)).collect(),
            ps.templates().map(|t| format!("{} := {}", t.id(), t)).collect(),
        )
    }
    let (mut me, other) = match (build(&req["self"]), build(&req["other"])) {
        (Ok(a), Ok(b)) => (a, b),
        (a, b) => return json!({"input_error": format!("{:?} {:?}", a.err(), b.err())}),
    };
    let before = describe(&me);
    let (o_pols, o_tmpls) = describe(&other);
    let rename = req["rename"].as_bool().unwrap_or(false);
    match me.merge(&other, rename) {
        Ok(renaming) => {
            let n_policies = me.policies().count();
            let n_templates = me.templates().count();
            // without renaming identical items coincide; with renaming a conflicting item arrives under a fresh id
            let exp_pols = if rename { before.0.len() + o_pols.iter().filter(|x| !before.0.contains(*x)).count() } else { before.0.union(&o_pols).count() };
            let exp_tmpls = if rename { before.1.len() + o_tmpls.iter().filter(|x| !before.1.contains(*x)).count() } else { before.1.union(&o_tmpls).count() };
            let tids: BTreeSet<String> = me.templates().map(|t| t.id().to_string()).collect();
            let dangling: Vec<String> = me.policies().filter_map(|p| p.template_id().map(|t| (p.id().to_string(), t.to_string()))).filter(|(_, t)| !tids.contains(t)).map(|(p, _)| p).collect();
            let shared: Vec<String> = me.policies().map(|p| p.id().to_string()).filter(|p| tids.contains(p)).collect();
            let lost: Vec<String> = before.0.iter().filter(|x| !describe(&me).0.contains(*x)).cloned().collect();
            json!({"ok": true, "renaming": renaming.len(), "n_policies": n_policies, "n_templates": n_templates, "expected_policies": exp_pols, "expected_templates": exp_tmpls,
                   "dangling_links": dangling, "shared_ids": shared, "lost": lost})
        }
        Err(e) => json!({"ok": false, "err": e.to_string(), "changed": describe(&me) != before}),
    }
}

/// a template linked in a policy set, the linked policy exported to JSON and read back: equal to the linked policy?  {template} -> {equal, linked, back}
fn link_json(req: &J) -> J {
    use cedar_policy::{EntityUid, PolicyId, SlotId, Template};
    use std::collections::HashMap;
    let t = match Template::parse(Some(PolicyId::new("t")), req["template"].as_str().unwrap_or("")) {
        Ok(t) => t,
        Err(e) => return json!({"parse_error": e.to_string()}),
    };
    let mut vals = HashMap::new();
    for s in t.slots() {
        if *s == SlotId::principal() {
            vals.insert(SlotId::principal(), EntityUid::from_str(r#"User::"alice""#).unwrap());
        } else {
            vals.insert(SlotId::resource(), EntityUid::from_str(r#"Doc::"d""#).unwrap());
        }
    }
    let mut ps = PolicySet::new();
    if let Err(e) = ps.add_template(t) {
        return json!({"input_error": e.to_string()});
    }
    if let Err(e) = ps.link(PolicyId::new("t"), PolicyId::new("l"), vals) {
        return json!({"input_error": e.to_string()});
    }
    let linked = match ps.policy(&PolicyId::new("l")) {
        Some(p) => p.clone(),
        None => return json!({"input_error": "no linked policy"}),
    };
    let j = match linked.to_json() {
        Ok(j) => j,
        Err(e) => return json!({"to_json_error": e.to_string()}),
    };
    // the exported JSON is a static policy: compare its scope and condition text with the linked policy's own rendering
    match cedar_policy::Policy::from_json(Some(PolicyId::new("l")), j.clone()) {
        Ok(q) => {
            // the scope of the linked policy as its AST has it (the printed form goes through the EST as well, so it cannot be the only witness)
            use cedar_policy::{ActionConstraint as AC, PrincipalConstraint as PC, ResourceConstraint as RC};
            let scope = |p: &cedar_policy::Policy| {
                let pc = match p.principal_constraint() { PC::Any => "any".to_string(), PC::In(u) => format!("in {u}"), PC::Eq(u) => format!("== {u}"), PC::Is(t) => format!("is {t}"), PC::IsIn(t, u) => format!("is {t} in {u}") };
                let rc = match p.resource_constraint() { RC::Any => "any".to_string(), RC::In(u) => format!("in {u}"), RC::Eq(u) => format!("== {u}"), RC::Is(t) => format!("is {t}"), RC::IsIn(t, u) => format!("is {t} in {u}") };
                let ac = match p.action_constraint() { AC::Any => "any".to_string(), AC::In(us) => format!("in [{}]", us.iter().map(|u| u.to_string()).collect::<Vec<_>>().join(", ")), AC::Eq(u) => format!("== {u}") };
                format!("principal {pc} / action {ac} / resource {rc}")
            };
            json!({"equal": q.to_string() == linked.to_string() && scope(&q) == scope(&linked), "linked": format!("{} [{}]", linked, scope(&linked)), "back": format!("{} [{}]", q, scope(&q)), "json": j})
        }
        Err(e) => json!({"equal": false, "linked": linked.to_string(), "back": format!("error: {e}")}),
    }
}

/// the same authorization request through the Rust API and through the JSON (FFI) interface (stateless or stateful with a pre-parsed policy set).
/// in: {policies: {id: text}, entities: JSON, principal/action/resource: {type, id}, context: JSON, stateful: bool}
/// out: {api: {decision, reasons, errors}, ffi: {decision, reasons, errors} | {failure: [..]}}
fn ffi_authorize(req: &J) -> J {
    use cedar_policy::{Context, EntityUid, Policy, PolicyId};
    let uid = |j: &J| EntityUid::from_type_name_and_id(j["type"].as_str().unwrap_or("").parse().unwrap(), j["id"].as_str().unwrap_or("").parse().unwrap());
    let mut ps = PolicySet::new();
    let empty = serde_json::Map::new();
    let pols = req["policies"].as_object().unwrap_or(&empty);
    for (id, text) in pols {
        match Policy::parse(Some(PolicyId::new(id)), text.as_str().unwrap_or("")) {
            Ok(p) => {
                if let Err(e) = ps.add(p) {
                    return json!({"input_error": e.to_string()});
                }
            }
            Err(e) => return json!({"input_error": e.to_string()}),
        }
    }
    let ents = match Entities::from_json_value(req["entities"].clone(), None) {
        Ok(e) => e,
        Err(e) => return json!({"input_error": e.to_string()}),
    };
    let cx = match Context::from_json_value(req["context"].clone(), None) {
        Ok(c) => c,
        Err(e) => return json!({"input_error": e.to_string()}),
    };
    let q = match Request::new(uid(&req["principal"]), uid(&req["action"]), uid(&req["resource"]), cx, None) {
        Ok(q) => q,
        Err(e) => return json!({"input_error": e.to_string()}),
    };
    let r = Authorizer::new().is_authorized(&q, &ps, &ents);
    let mut reasons: Vec<String> = r.diagnostics().reason().map(|p| p.to_string()).collect();
    reasons.sort();
    let mut errors: Vec<String> = r.diagnostics().errors().map(|e| match e { cedar_policy::AuthorizationError::PolicyEvaluationError(pe) => pe.policy_id().to_string() }).collect();
    errors.sort();
    let api = json!({"decision": format!("{:?}", r.decision()).to_lowercase(), "reasons": reasons, "errors": errors});
    // the JSON interface
    let static_policies: serde_json::Map<String, J> = pols.iter().map(|(k, v)| (k.clone(), v.clone())).collect();
    let stateful = req["stateful"].as_bool().unwrap_or(false);
    let ans = if stateful {
        let pre = cedar_policy::ffi::preparse_policy_set("ps1".to_string(), serde_json::from_value(json!({"staticPolicies": static_policies})).unwrap());
        let _ = pre;
        let call = json!({"principal": req["principal"], "action": req["action"], "resource": req["resource"], "context": req["context"],
                          "preparsedPolicySetId": "ps1", "entities": req["entities"], "validateRequest": false});
        match serde_json::from_value(call) {
            Ok(c) => serde_json::to_value(cedar_policy::ffi::stateful_is_authorized(c)).unwrap_or(json!({"type": "serde"})),
            Err(e) => return json!({"api": api, "ffi": {"call_error": e.to_string()}}),
        }
    } else {
        let call = json!({"principal": req["principal"], "action": req["action"], "resource": req["resource"], "context": req["context"],
                          "policies": {"staticPolicies": static_policies}, "entities": req["entities"]});
        match cedar_policy::ffi::is_authorized_json(call) {
            Ok(a) => a,
            Err(e) => return json!({"api": api, "ffi": {"call_error": e.to_string()}}),
        }
    };
    let ffi = if ans["type"] == "success" {
        let d = &ans["response"];
        let mut rs: Vec<String> = d["diagnostics"]["reason"].as_array().cloned().unwrap_or_default().iter().filter_map(|x| x.as_str().map(|s| s.to_string())).collect();
        rs.sort();
        let mut es: Vec<String> = d["diagnostics"]["errors"].as_array().cloned().unwrap_or_default().iter().filter_map(|x| x["policyId"].as_str().map(|s| s.to_string())).collect();
        es.sort();
        json!({"decision": d["decision"], "reasons": rs, "errors": es})
    } else {
        json!({"failure": ans})
    };
    json!({"api": api, "ffi": ffi})
}

/// normalised view of an `AuthorizationAnswer` in JSON: decision, sorted reasons, sorted erroring policy ids - or "failure"
fn norm_ffi_answer(ans: &J) -> J {
    if ans["type"] == "success" {
        let d = &ans["response"];
        let mut rs: Vec<String> = d["diagnostics"]["reason"].as_array().cloned().unwrap_or_default().iter().filter_map(|x| x.as_str().map(|s| s.to_string())).collect();
        rs.sort();
        let mut es: Vec<String> = d["diagnostics"]["errors"].as_array().cloned().unwrap_or_default().iter().filter_map(|x| x["policyId"].as_str().map(|s| s.to_string())).collect();
        es.sort();
        json!({"decision": d["decision"], "reasons": rs, "errors": es})
    } else if ans["type"] == "failure" {
        json!({"failure": true, "n_errors": ans["errors"].as_array().map(|a| a.len()).unwrap_or(0)})
    } else {
        json!({"other": ans})
    }
}

fn norm_api_response(r: &cedar_policy::Response) -> J {
    let mut reasons: Vec<String> = r.diagnostics().reason().map(|p| p.to_string()).collect();
    reasons.sort();
    let mut errors: Vec<String> = r.diagnostics().errors().map(|e| match e { cedar_policy::AuthorizationError::PolicyEvaluationError(pe) => pe.policy_id().to_string() }).collect();
    errors.sort();
    json!({"decision": format!("{:?}", r.decision()).to_lowercase(), "reasons": reasons, "errors": errors})
}

/// The policy set the descriptors stand for, assembled with the public API only.
fn api_policy_set(req: &J) -> Result<PolicySet, String> {
    use cedar_policy::{EntityUid, Policy, PolicyId, SlotId, Template};
    use std::str::FromStr;
    let uid = |j: &J| -> Result<EntityUid, String> {
        Ok(EntityUid::from_type_name_and_id(j["type"].as_str().unwrap_or("").parse().map_err(|e| format!("{e}"))?, j["id"].as_str().unwrap_or("").parse().map_err(|e| format!("{e}"))?))
    };
    let one = |id: Option<PolicyId>, d: &J| -> Result<Policy, String> {
        if let Some(t) = d["cedar"].as_str() { Policy::parse(id, t).map_err(|e| e.to_string()) } else { Policy::from_json(id, d["json"].clone()).map_err(|e| e.to_string()) }
    };
    let st = &req["static"];
    let mut ps = match st["kind"].as_str().unwrap_or("") {
        "concat" => {
            let ps = PolicySet::from_str(st["text"].as_str().unwrap_or("")).map_err(|e| e.to_string())?;
            if ps.templates().count() > 0 { return Err("template in static set".into()); }
            ps
        }
        "set" => {
            let mut v = vec![];
            for d in st["items"].as_array().cloned().unwrap_or_default() { v.push(one(None, &d)?); }
            PolicySet::from_policies(v).map_err(|e| e.to_string())?
        }
        "map" => {
            let mut v = vec![];
            for (id, d) in st["items"].as_object().cloned().unwrap_or_default() { v.push(one(Some(PolicyId::new(id)), &d)?); }
            PolicySet::from_policies(v).map_err(|e| e.to_string())?
        }
        _ => PolicySet::new(),
    };
    for (id, d) in req["templates"].as_object().cloned().unwrap_or_default() {
        let t = if let Some(t) = d["cedar"].as_str() { Template::parse(Some(PolicyId::new(id)), t).map_err(|e| e.to_string())? } else { Template::from_json(Some(PolicyId::new(id)), d["json"].clone()).map_err(|e| e.to_string())? };
        ps.add_template(t).map_err(|e| e.to_string())?;
    }
    for l in req["links"].as_array().cloned().unwrap_or_default() {
        let mut vals = std::collections::HashMap::new();
        for (slot, e) in l["values"].as_object().cloned().unwrap_or_default() {
            let s = match slot.as_str() { "?principal" => SlotId::principal(), "?resource" => SlotId::resource(), _ => return Err("bad slot".into()) };
            vals.insert(s, uid(&e)?);
        }
        ps.link(PolicyId::new(l["templateId"].as_str().unwrap_or("")), PolicyId::new(l["newId"].as_str().unwrap_or("")), vals).map_err(|e| e.to_string())?;
    }
    Ok(ps)
}

/// The Rust API answer for a call whose policy set / schema are given by explicit shape descriptors (written against the public API only).
fn api_for_shapes(req: &J) -> Result<J, String> {
    use cedar_policy::{Context, EntityUid, Schema};
    let uid = |j: &J| -> Result<EntityUid, String> {
        Ok(EntityUid::from_type_name_and_id(j["type"].as_str().unwrap_or("").parse().map_err(|e| format!("{e}"))?, j["id"].as_str().unwrap_or("").parse().map_err(|e| format!("{e}"))?))
    };
    let ps = api_policy_set(req)?;
    let schema = if req["schema"].is_null() { None } else if let Some(t) = req["schema"]["cedar"].as_str() {
        Some(Schema::from_cedarschema_str(t).map_err(|e| e.to_string())?.0)
    } else {
        Some(Schema::from_json_value(req["schema"]["json"].clone()).map_err(|e| e.to_string())?)
    };
    let (p, a, r) = (uid(&req["principal"])?, uid(&req["action"])?, uid(&req["resource"])?);
    let cx = Context::from_json_value(req["context"].clone(), schema.as_ref().map(|s| (s, &a))).map_err(|e| e.to_string())?;
    let validate = req["validate"].as_bool().unwrap_or(true);
    let q = Request::new(p, a, r, cx, if validate { schema.as_ref() } else { None }).map_err(|e| e.to_string())?;
    let ents = Entities::from_json_value(req["entities"].clone(), schema.as_ref()).map_err(|e| e.to_string())?;
    Ok(norm_api_response(&Authorizer::new().is_authorized(&q, &ps, &ents)))
}

/// the `policies` / `schema` documents of the JSON interface for the same descriptors
fn ffi_docs_for_shapes(req: &J) -> (J, J) {
    let one = |d: &J| -> J { if let Some(t) = d["cedar"].as_str() { json!(t) } else { d["json"].clone() } };
    let st = &req["static"];
    let stat = match st["kind"].as_str().unwrap_or("") {
        "concat" => json!(st["text"]),
        "set" => J::Array(st["items"].as_array().cloned().unwrap_or_default().iter().map(one).collect()),
        "map" => J::Object(st["items"].as_object().cloned().unwrap_or_default().iter().map(|(k, v)| (k.clone(), one(v))).collect()),
        _ => json!([]),
    };
    let templates = J::Object(req["templates"].as_object().cloned().unwrap_or_default().iter().map(|(k, v)| (k.clone(), one(v))).collect());
    let links = req["links"].as_array().cloned().unwrap_or_default();
    let schema = if req["schema"].is_null() { J::Null } else if let Some(t) = req["schema"]["cedar"].as_str() { json!(t) } else { req["schema"]["json"].clone() };
    (json!({"staticPolicies": stat, "templates": templates, "templateLinks": links}), schema)
}

fn ffi_shapes(req: &J) -> J {
    let api = match api_for_shapes(req) { Ok(a) => a, Err(e) => json!({"failure": true, "why": e}) };
    let (policies, schema) = ffi_docs_for_shapes(req);
    let mut call = json!({"principal": req["principal"], "action": req["action"], "resource": req["resource"], "context": req["context"],
                          "policies": policies, "entities": req["entities"], "validateRequest": req["validate"].as_bool().unwrap_or(true)});
    if !schema.is_null() { call["schema"] = schema; }
    let ffi = match cedar_policy::ffi::is_authorized_json(call) { Ok(a) => norm_ffi_answer(&a), Err(e) => json!({"call_error": e.to_string()}) };
    json!({"api": api, "ffi": ffi})
}

/// A history of preparse / stateful calls, run on a fresh thread (fresh thread-local caches).  Each authorize step may carry the
/// stateless call the caller's model says is equivalent; both answers are returned.
fn ffi_history(req: &J) -> J {
    let steps = req["steps"].as_array().cloned().unwrap_or_default();
    let h = std::thread::spawn(move || {
        let mut out = vec![];
        for s in steps {
            match s["do"].as_str().unwrap_or("") {
                "preparse_policy_set" => {
                    let a = match serde_json::from_value(s["policies"].clone()) {
                        Ok(p) => serde_json::to_value(cedar_policy::ffi::preparse_policy_set(s["name"].as_str().unwrap_or("").to_string(), p)).unwrap_or(J::Null),
                        Err(e) => json!({"type": "failure", "call_error": e.to_string()}),
                    };
                    out.push(json!({"type": a["type"]}));
                }
                "preparse_schema" => {
                    let a = match serde_json::from_value(s["schema"].clone()) {
                        Ok(p) => serde_json::to_value(cedar_policy::ffi::preparse_schema(s["name"].as_str().unwrap_or("").to_string(), p)).unwrap_or(J::Null),
                        Err(e) => json!({"type": "failure", "call_error": e.to_string()}),
                    };
                    out.push(json!({"type": a["type"]}));
                }
                "authorize" => {
                    let stateful = match serde_json::from_value(s["call"].clone()) {
                        Ok(c) => norm_ffi_answer(&serde_json::to_value(cedar_policy::ffi::stateful_is_authorized(c)).unwrap_or(J::Null)),
                        Err(e) => json!({"call_error": e.to_string()}),
                    };
                    let stateless = if s["stateless"].is_null() { J::Null } else {
                        match cedar_policy::ffi::is_authorized_json(s["stateless"].clone()) { Ok(a) => norm_ffi_answer(&a), Err(e) => json!({"call_error": e.to_string()}) }
                    };
                    out.push(json!({"stateful": stateful, "stateless": stateless}));
                }
                other => out.push(json!({"unknown_step": other})),
            }
        }
        out
    });
    match h.join() { Ok(o) => json!({"answers": o}), Err(_) => json!({"panic": "history thread"}) }
}

/// validate_json against Validator::validate on the same policy-set / schema descriptors
fn ffi_validate(req: &J) -> J {
    use cedar_policy::{Schema, ValidationMode, Validator};
    let api = (|| -> Result<J, String> {
        // policies through the same reference assembly as ffi_shapes (public API only)
        let mut r2 = req.clone();
        r2["schema"] = J::Null;
        let ps = api_policy_set(&r2)?;
        let schema = if let Some(t) = req["schema"]["cedar"].as_str() { Schema::from_cedarschema_str(t).map_err(|e| e.to_string())?.0 } else { Schema::from_json_value(req["schema"]["json"].clone()).map_err(|e| e.to_string())? };
        let res = Validator::new(schema).validate(&ps, ValidationMode::default());
        let mut es: Vec<(String, String)> = res.validation_errors().map(|e| (e.policy_id().to_string(), e.to_string())).collect();
        let mut ws: Vec<(String, String)> = res.validation_warnings().map(|e| (e.policy_id().to_string(), e.to_string())).collect();
        es.sort();
        ws.sort();
        Ok(json!({"errors": es, "warnings": ws}))
    })();
    let api = match api { Ok(a) => a, Err(e) => json!({"failure": true, "why": e}) };
    let (policies, schema) = ffi_docs_for_shapes(req);
    let call = json!({"schema": schema, "policies": policies});
    let ffi = match cedar_policy::ffi::validate_json(call) {
        Ok(a) if a["type"] == "success" => {
            let view = |k: &str| -> Vec<(String, String)> {
                let mut v: Vec<(String, String)> = a[k].as_array().cloned().unwrap_or_default().iter().map(|x| (x["policyId"].as_str().unwrap_or("?").to_string(), x["error"]["message"].as_str().unwrap_or("?").to_string())).collect();
                v.sort();
                v
            };
            json!({"errors": view("validationErrors"), "warnings": view("validationWarnings")})
        }
        Ok(_) => json!({"failure": true}),
        Err(e) => json!({"call_error": e.to_string()}),
    };
    json!({"api": api, "ffi": ffi})
}

/// conversions and parse checks of the JSON interface against the API calls they stand for
fn ffi_convert(req: &J) -> J {
    use cedar_policy::{Policy, Schema, SchemaFragment, Template};
    let what = req["what"].as_str().unwrap_or("");
    let doc = &req["doc"];
    let fail = |e: String| json!({"failure": true, "why": e});
    let ffi_of = |a: Result<J, serde_json::Error>, key: &str| -> J {
        match a { Ok(a) if a["type"] == "success" => json!({"ok": a[key]}), Ok(_) => json!({"failure": true}), Err(e) => json!({"call_error": e.to_string()}) }
    };
    let ffi_doc = if let Some(t) = doc["cedar"].as_str() { json!(t) } else { doc["json"].clone() };
    match what {
        "policy_to_json" | "policy_to_text" => {
            let p = if let Some(t) = doc["cedar"].as_str() { Policy::parse(None, t).map_err(|e| e.to_string()) } else { Policy::from_json(None, doc["json"].clone()).map_err(|e| e.to_string()) };
            let api = match p { Err(e) => fail(e), Ok(p) => if what == "policy_to_json" { match p.to_json() { Ok(j) => json!({"ok": j}), Err(e) => fail(e.to_string()) } } else { json!({"ok": p.to_string()}) } };
            let ffi = match serde_json::from_value(ffi_doc) {
                Ok(d) => if what == "policy_to_json" { ffi_of(serde_json::to_value(cedar_policy::ffi::policy_to_json(d)), "json") } else { ffi_of(serde_json::to_value(cedar_policy::ffi::policy_to_text(d)), "text") },
                Err(e) => json!({"call_error": e.to_string()}),
            };
            json!({"api": api, "ffi": ffi})
        }
        "template_to_json" | "template_to_text" => {
            let p = if let Some(t) = doc["cedar"].as_str() { Template::parse(None, t).map_err(|e| e.to_string()) } else { Template::from_json(None, doc["json"].clone()).map_err(|e| e.to_string()) };
            let api = match p { Err(e) => fail(e), Ok(p) => if what == "template_to_json" { match p.to_json() { Ok(j) => json!({"ok": j}), Err(e) => fail(e.to_string()) } } else { json!({"ok": p.to_string()}) } };
            let ffi = match serde_json::from_value(ffi_doc) {
                Ok(d) => if what == "template_to_json" { ffi_of(serde_json::to_value(cedar_policy::ffi::template_to_json(d)), "json") } else { ffi_of(serde_json::to_value(cedar_policy::ffi::template_to_text(d)), "text") },
                Err(e) => json!({"call_error": e.to_string()}),
            };
            json!({"api": api, "ffi": ffi})
        }
        "schema_to_json" | "schema_to_text" => {
            let mk = || if let Some(t) = doc["cedar"].as_str() { SchemaFragment::from_cedarschema_str(t).map(|x| x.0).map_err(|e| e.to_string()) } else { SchemaFragment::from_json_value(doc["json"].clone()).map_err(|e| e.to_string()) };
            let api = match (mk(), mk()) {
                (Err(e), _) | (_, Err(e)) => fail(e),
                (Ok(f0), Ok(f)) => {
                    let out = if what == "schema_to_json" { f0.to_json_value().map_err(|e| e.to_string()) } else { f0.to_cedarschema().map(|t| json!(t)).map_err(|e| e.to_string()) };
                    match out { Err(e) => fail(e), Ok(o) => match Schema::from_schema_fragments([f]) { Ok(_) => json!({"ok": o}), Err(e) => fail(e.to_string()) } }
                }
            };
            let ffi = match serde_json::from_value(ffi_doc) {
                Ok(d) => if what == "schema_to_json" { ffi_of(serde_json::to_value(cedar_policy::ffi::schema_to_json(d)), "json") } else { ffi_of(serde_json::to_value(cedar_policy::ffi::schema_to_text(d)), "text") },
                Err(e) => json!({"call_error": e.to_string()}),
            };
            json!({"api": api, "ffi": ffi})
        }
        "check_parse_policy_set" => {
            let api = match api_policy_set(req) { Ok(_) => json!({"ok": true}), Err(e) => fail(e) };
            let (policies, _) = ffi_docs_for_shapes(req);
            let ffi = match cedar_policy::ffi::check_parse_policy_set_json(policies) { Ok(a) if a["type"] == "success" => json!({"ok": true}), Ok(_) => json!({"failure": true}), Err(e) => json!({"call_error": e.to_string()}) };
            json!({"api": api, "ffi": ffi})
        }
        "check_parse_schema" => {
            let api = match if let Some(t) = doc["cedar"].as_str() { Schema::from_cedarschema_str(t).map(|x| x.0).map_err(|e| e.to_string()) } else { Schema::from_json_value(doc["json"].clone()).map_err(|e| e.to_string()) } { Ok(_) => json!({"ok": true}), Err(e) => fail(e) };
            let ffi = match cedar_policy::ffi::check_parse_schema_json(ffi_doc) { Ok(a) if a["type"] == "success" => json!({"ok": true}), Ok(_) => json!({"failure": true}), Err(e) => json!({"call_error": e.to_string()}) };
            json!({"api": api, "ffi": ffi})
        }
        "check_parse_entities" => {
            let schema = if req["schema"].is_null() { Ok(None) } else if let Some(t) = req["schema"]["cedar"].as_str() { Schema::from_cedarschema_str(t).map(|x| Some(x.0)).map_err(|e| e.to_string()) } else { Schema::from_json_value(req["schema"]["json"].clone()).map(Some).map_err(|e| e.to_string()) };
            let api = match schema { Err(e) => fail(e), Ok(s) => match Entities::from_json_value(req["entities"].clone(), s.as_ref()) { Ok(_) => json!({"ok": true}), Err(e) => fail(e.to_string()) } };
            let mut call = json!({"entities": req["entities"]});
            if !req["schema"].is_null() { call["schema"] = if let Some(t) = req["schema"]["cedar"].as_str() { json!(t) } else { req["schema"]["json"].clone() }; }
            let ffi = match cedar_policy::ffi::check_parse_entities_json(call) { Ok(a) if a["type"] == "success" => json!({"ok": true}), Ok(_) => json!({"failure": true}), Err(e) => json!({"call_error": e.to_string()}) };
            json!({"api": api, "ffi": ffi})
        }
        "check_parse_context" | "check_parse_scope_variables" => {
            use cedar_policy::{Context, EntityUid};
            let uid = |j: &J| -> Result<EntityUid, String> { EntityUid::from_json(j.clone()).map_err(|e| e.to_string()) };
            let parse_schema = |d: &J| -> Result<Schema, String> { if let Some(t) = d["cedar"].as_str() { Schema::from_cedarschema_str(t).map(|x| x.0).map_err(|e| e.to_string()) } else { Schema::from_json_value(d["json"].clone()).map_err(|e| e.to_string()) } };
            let ffi_schema = |d: &J| -> J { if let Some(t) = d["cedar"].as_str() { json!(t) } else { d["json"].clone() } };
            if what == "check_parse_context" {
                let api = (|| -> Result<(), String> {
                    let action = if req["action"].is_null() { None } else { Some(uid(&req["action"])?) };
                    let schema = if req["schema"].is_null() { None } else { Some(parse_schema(&req["schema"])?) };
                    let both = match (&schema, &action) { (Some(s), Some(a)) => Some((s, a)), _ => None };
                    let cx = Context::from_json_value(req["context"].clone(), both).map_err(|e| e.to_string())?;
                    if let Some((s, a)) = both { cx.validate(s, a).map_err(|e| e.to_string())?; }
                    Ok(())
                })();
                let api = match api { Ok(()) => json!({"ok": true}), Err(e) => fail(e) };
                let mut call = json!({"context": req["context"]});
                if !req["action"].is_null() { call["action"] = req["action"].clone(); }
                if !req["schema"].is_null() { call["schema"] = ffi_schema(&req["schema"]); }
                let ffi = match cedar_policy::ffi::check_parse_context_json(call) { Ok(a) if a["type"] == "success" => json!({"ok": true}), Ok(_) => json!({"failure": true}), Err(e) => json!({"call_error": e.to_string()}) };
                json!({"api": api, "ffi": ffi})
            } else {
                let api = (|| -> Result<(), String> {
                    let schema = parse_schema(&req["schema"])?;
                    let (p, a, r) = (uid(&req["principal"])?, uid(&req["action"])?, uid(&req["resource"])?);
                    cedar_policy::validate_scope_variables(&p, &a, &r, &schema).map_err(|e| e.to_string())
                })();
                let api = match api { Ok(()) => json!({"ok": true}), Err(e) => fail(e) };
                let call = json!({"schema": ffi_schema(&req["schema"]), "principal": req["principal"], "action": req["action"], "resource": req["resource"]});
                let ffi = match cedar_policy::ffi::check_parse_scope_variables_json(call) { Ok(a) if a["type"] == "success" => json!({"ok": true}), Ok(_) => json!({"failure": true}), Err(e) => json!({"call_error": e.to_string()}) };
                json!({"api": api, "ffi": ffi})
            }
        }
        "format" => {
            let cfg = cedar_policy_formatter::Config { line_width: req["line_width"].as_u64().unwrap_or(80) as usize, indent_width: req["indent_width"].as_i64().unwrap_or(2) as isize };
            let api = match cedar_policy_formatter::policies_str_to_pretty(req["text"].as_str().unwrap_or(""), &cfg) { Ok(t) => json!({"ok": t}), Err(e) => fail(e.to_string()) };
            let call = json!({"policyText": req["text"], "lineWidth": req["line_width"], "indentWidth": req["indent_width"]});
            let ffi = ffi_of(cedar_policy::ffi::format_json(call), "formatted_policy");
            json!({"api": api, "ffi": ffi})
        }
        other => json!({"unknown_conversion": other}),
    }
}

/// policy set text (+ optional links of its templates) -> protobuf bytes -> policy set: every policy and template compared by scope, effect, rendered text
fn proto_roundtrip(req: &J) -> J {
    use cedar_policy::proto::traits::Protobuf;
    use cedar_policy::{ActionConstraint as AC, EntityUid, PolicyId, PrincipalConstraint as PC, ResourceConstraint as RC, SlotId};
    use std::str::FromStr;
    let mut ps = match PolicySet::from_str(req["policies"].as_str().unwrap_or("")) { Ok(p) => p, Err(e) => return json!({"input_error": e.to_string()}) };
    for l in req["links"].as_array().cloned().unwrap_or_default() {
        let mut vals = std::collections::HashMap::new();
        for (slot, e) in l["values"].as_object().cloned().unwrap_or_default() {
            let s = if slot == "?principal" { SlotId::principal() } else { SlotId::resource() };
            match EntityUid::from_str(e.as_str().unwrap_or("")) { Ok(u) => { vals.insert(s, u); } Err(e) => return json!({"input_error": e.to_string()}) }
        }
        if let Err(e) = ps.link(PolicyId::new(l["template"].as_str().unwrap_or("")), PolicyId::new(l["id"].as_str().unwrap_or("")), vals) { return json!({"input_error": e.to_string()}); }
    }
    let bytes = match ps.encode() { Ok(b) => b, Err(e) => return json!({"encode_error": e.to_string()}) };
    let back = match PolicySet::decode(&bytes[..]) { Ok(p) => p, Err(e) => return json!({"equal": false, "why": format!("decode error: {e}")}) };
    let scope = |p: &cedar_policy::Policy| {
        let pc = match p.principal_constraint() { PC::Any => "any".to_string(), PC::In(u) => format!("in {u}"), PC::Eq(u) => format!("== {u}"), PC::Is(t) => format!("is {t}"), PC::IsIn(t, u) => format!("is {t} in {u}") };
        let rc = match p.resource_constraint() { RC::Any => "any".to_string(), RC::In(u) => format!("in {u}"), RC::Eq(u) => format!("== {u}"), RC::Is(t) => format!("is {t}"), RC::IsIn(t, u) => format!("is {t} in {u}") };
        let ac = match p.action_constraint() { AC::Any => "any".to_string(), AC::In(us) => format!("in [{}]", us.iter().map(|u| u.to_string()).collect::<Vec<_>>().join(", ")), AC::Eq(u) => format!("== {u}") };
        format!("{:?} principal {pc} / action {ac} / resource {rc} / template {:?}", p.effect(), p.template_id().map(|t| t.to_string()))
    };
    let mut ids: Vec<String> = ps.policies().map(|p| p.id().to_string()).collect();
    ids.sort();
    let mut ids2: Vec<String> = back.policies().map(|p| p.id().to_string()).collect();
    ids2.sort();
    if ids != ids2 { return json!({"equal": false, "why": format!("policy ids {ids:?} came back as {ids2:?}")}); }
    for id in &ids {
        let (a, b) = (ps.policy(&PolicyId::new(id)), back.policy(&PolicyId::new(id)));
        if let (Some(a), Some(b)) = (a, b) {
            if scope(a) != scope(b) { return json!({"equal": false, "why": format!("policy {id}: scope `{}` came back as `{}`", scope(a), scope(b))}); }
            // `==` on API policies compares the ASTs (source locations and the lossless text are not part of it)
            if a != b { return json!({"equal": false, "why": format!("policy {id}: `{a}` came back as `{b}` (not == on the AST)")}); }
        }
    }
    let mut ts: Vec<String> = ps.templates().map(|t| t.id().to_string()).collect();
    ts.sort();
    let mut ts2: Vec<String> = back.templates().map(|t| t.id().to_string()).collect();
    ts2.sort();
    if ts != ts2 { return json!({"equal": false, "why": format!("template ids {ts:?} came back as {ts2:?}")}); }
    for id in &ts {
        if let (Some(a), Some(b)) = (ps.template(&PolicyId::new(id)), back.template(&PolicyId::new(id))) {
            if a != b { return json!({"equal": false, "why": format!("template {id}: `{a}` came back as `{b}` (not == on the AST)")}); }
        }
    }
    json!({"equal": true, "policies": ids.len(), "templates": ts.len(), "bytes": bytes.len()})
}

/// resource / principal permission query against a brute-force enumeration of the candidates with the concrete authorizer
fn permission_query(req: &J) -> J {
    use cedar_policy::{Context, EntityTypeName, EntityUid, PrincipalQueryRequest, ResourceQueryRequest, Schema};
    use std::str::FromStr;
    let uid = |j: &J| EntityUid::from_type_name_and_id(j["type"].as_str().unwrap_or("").parse().unwrap(), j["id"].as_str().unwrap_or("").parse().unwrap());
    let schema = match Schema::from_cedarschema_str(req["schema"].as_str().unwrap_or("")) { Ok(s) => s.0, Err(e) => return json!({"input_error": e.to_string()}) };
    let ps = match PolicySet::from_str(req["policies"].as_str().unwrap_or("")) { Ok(p) => p, Err(e) => return json!({"input_error": e.to_string()}) };
    let ents = match Entities::from_json_value(req["entities"].clone(), Some(&schema)) { Ok(e) => e, Err(e) => return json!({"input_error": e.to_string()}) };
    let action = uid(&req["action"]);
    let cx = |s: &Schema| Context::from_json_value(req["context"].clone(), Some((s, &action))).map_err(|e| e.to_string());
    if req["kind"] == "action" {
        // action query with an unknown context: compared with concrete authorization over a list of candidate contexts
        use cedar_policy::{ActionQueryRequest, PartialEntities, PartialEntityUid};
        let (p, r) = (uid(&req["principal"]), uid(&req["resource"]));
        let q = match ActionQueryRequest::new(PartialEntityUid::from_concrete(p.clone()), PartialEntityUid::from_concrete(r.clone()), None, schema.clone()) { Ok(q) => q, Err(e) => return json!({"input_error": e.to_string()}) };
        let pents = match PartialEntities::from_concrete(ents.clone(), &schema) { Ok(e) => e, Err(e) => return json!({"input_error": e.to_string()}) };
        let mut got: Vec<(String, String)> = match ps.query_action(&q, &pents) { Ok(it) => it.map(|(a, d)| (a.to_string(), format!("{d:?}"))).collect(), Err(e) => return json!({"query_error": e.to_string()}) };
        got.sort();
        let mut problems: Vec<String> = vec![];
        for a in req["actions"].as_array().cloned().unwrap_or_default() {
            let a = uid(&a);
            let mut allows = vec![];
            for c in req["contexts"].as_array().cloned().unwrap_or_default() {
                let cx = match Context::from_json_value(c.clone(), Some((&schema, &a))) { Ok(c) => c, Err(_) => continue };
                if let Ok(rq) = Request::new(p.clone(), a.clone(), r.clone(), cx, Some(&schema)) {
                    allows.push(Authorizer::new().is_authorized(&rq, &ps, &ents).decision() == cedar_policy::Decision::Allow);
                }
            }
            let label = got.iter().find(|(x, _)| x == &a.to_string()).map(|(_, d)| d.clone());
            if allows.iter().any(|x| *x) && label.is_none() { problems.push(format!("{a} is allowed for some context but the query omits it")); }
            if label.as_deref() == Some("Some(Allow)") && allows.iter().any(|x| !*x) { problems.push(format!("{a} is labelled definitely allowed but is denied for some context")); }
        }
        return json!({"query": problems, "brute_force": Vec::<String>::new(), "answer": got});
    }
    let resource_query = req["kind"] == "resource";
    let ty: EntityTypeName = match req[if resource_query { "resource_type" } else { "principal_type" }].as_str().unwrap_or("").parse() { Ok(t) => t, Err(_) => return json!({"input_error": "type name"}) };
    let fixed = uid(&req[if resource_query { "principal" } else { "resource" }]);
    let context = match cx(&schema) { Ok(c) => c, Err(e) => return json!({"input_error": e}) };
    let mut got: Vec<String> = if resource_query {
        let q = match ResourceQueryRequest::new(fixed.clone(), action.clone(), ty.clone(), context.clone(), &schema) { Ok(q) => q, Err(e) => return json!({"input_error": e.to_string()}) };
        match ps.query_resource(&q, &ents, &schema) { Ok(it) => it.map(|u| u.to_string()).collect(), Err(e) => return json!({"query_error": e.to_string()}) }
    } else {
        let q = match PrincipalQueryRequest::new(ty.clone(), action.clone(), fixed.clone(), context.clone(), &schema) { Ok(q) => q, Err(e) => return json!({"input_error": e.to_string()}) };
        match ps.query_principal(&q, &ents, &schema) { Ok(it) => it.map(|u| u.to_string()).collect(), Err(e) => return json!({"query_error": e.to_string()}) }
    };
    got.sort();
    let mut want: Vec<String> = vec![];
    for e in ents.iter() {
        if e.uid().type_name() != &ty { continue; }
        let (p, r) = if resource_query { (fixed.clone(), e.uid()) } else { (e.uid(), fixed.clone()) };
        if let Ok(q) = Request::new(p, action.clone(), r, context.clone(), Some(&schema)) {
            if Authorizer::new().is_authorized(&q, &ps, &ents).decision() == cedar_policy::Decision::Allow { want.push(e.uid().to_string()); }
        }
    }
    want.sort();
    json!({"query": got, "brute_force": want})
}

/// the edit distance behind "did you mean" (through the public fuzzy_search with a distance limit; a panic is caught by the caller)
fn fuzzy(req: &J) -> J {
    use cedar_policy_core::fuzzy_match::fuzzy_search_limited;
    let (key, word) = (req["key"].as_str().unwrap_or(""), req["word"].as_str().unwrap_or(""));
    let words = [word.to_string()];
    // smallest limit under which the word is returned = the distance
    let mut d = J::Null;
    for k in 0..16usize {
        if fuzzy_search_limited(key, &words, Some(k)).is_some() { d = json!(k); break; }
    }
    json!({"distance": d, "unlimited": cedar_policy_core::fuzzy_match::fuzzy_search(key, &words)})
}

/// print a policy given in the JSON (EST) format: the EST printer without going through the AST (a panic is caught by the caller)
fn est_print(req: &J) -> J {
    match serde_json::from_value::<cedar_policy_core::est::Policy>(req["policy"].clone()) {
        Ok(p) => json!({"printed": p.to_string()}),
        Err(e) => json!({"not_an_est_policy": e.to_string()}),
    }
}

/// entity manifest: authorization over the store sliced by the manifest vs over the full store (core API; feature entity-manifest)
fn manifest_slice(req: &J) -> J {
    use cedar_policy_core::validator::entity_manifest::compute_entity_manifest;
    use cedar_policy::{Context, EntityUid, Schema, ValidationMode, Validator};
    use std::str::FromStr;
    let schema = match Schema::from_cedarschema_str(req["schema"].as_str().unwrap_or("")) { Ok(s) => s.0, Err(e) => return json!({"input_error": e.to_string()}) };
    let ps = match PolicySet::from_str(req["policies"].as_str().unwrap_or("")) { Ok(p) => p, Err(e) => return json!({"input_error": e.to_string()}) };
    let v = Validator::new(schema.clone());
    let res = v.validate(&ps, ValidationMode::Strict);
    if !res.validation_passed() { return json!({"input_error": format!("policies do not validate: {res}")}); }
    let ents = match Entities::from_json_value(req["entities"].clone(), Some(&schema)) { Ok(e) => e, Err(e) => return json!({"input_error": e.to_string()}) };
    let (p, a, r) = match (EntityUid::from_str(req["principal"].as_str().unwrap_or("")), EntityUid::from_str(req["action"].as_str().unwrap_or("")), EntityUid::from_str(req["resource"].as_str().unwrap_or(""))) {
        (Ok(p), Ok(a), Ok(r)) => (p, a, r), _ => return json!({"input_error": "uids"}) };
    let cx = match Context::from_json_value(req["context"].clone(), Some((&schema, &a))) { Ok(c) => c, Err(e) => return json!({"input_error": e.to_string()}) };
    let q = match Request::new(p, a, r, cx, Some(&schema)) { Ok(q) => q, Err(e) => return json!({"input_error": e.to_string()}) };
    let view = |resp: &cedar_policy::Response| {
        let mut rs: Vec<String> = resp.diagnostics().reason().map(|p| p.to_string()).collect(); rs.sort();
        let mut es: Vec<String> = resp.diagnostics().errors().map(|e| match e { cedar_policy::AuthorizationError::PolicyEvaluationError(pe) => pe.policy_id().to_string() }).collect(); es.sort();
        json!({"decision": format!("{:?}", resp.decision()), "reasons": rs, "errors": es})
    };
    let full = view(&Authorizer::new().is_authorized(&q, &ps, &ents));
    let core_validator: &cedar_policy_core::validator::Validator = v.as_ref();
    let core_ps: &cedar_policy_core::ast::PolicySet = ps.as_ref();
    let manifest = match compute_entity_manifest(core_validator, core_ps) { Ok(m) => m, Err(e) => return json!({"full": full, "sliced": {"manifest_error": e.to_string()}}) };
    let core_ents: &cedar_policy_core::entities::Entities = ents.as_ref();
    let core_req: &cedar_policy_core::ast::Request = q.as_ref();
    let sliced = match manifest.slice_entities(core_ents, core_req) { Ok(s) => s, Err(e) => return json!({"full": full, "sliced": {"slice_error": e.to_string()}}) };
    let kept: Vec<String> = sliced.iter().map(|e| e.uid().to_string()).collect();
    let core_auth = cedar_policy_core::authorizer::Authorizer::new();
    let resp = core_auth.is_authorized(core_req.clone(), core_ps, &sliced);
    let mut rs: Vec<String> = resp.diagnostics.reason.iter().map(|p| p.to_string()).collect(); rs.sort();
    let mut es: Vec<String> = resp.diagnostics.errors.iter().map(|e| match e { cedar_policy_core::authorizer::AuthorizationError::PolicyEvaluationError { id, .. } => id.to_string() }).collect(); es.sort();
    json!({"full": full, "sliced": {"decision": format!("{:?}", resp.decision), "reasons": rs, "errors": es}, "kept": kept})
}

/// strict validation of one policy, then (if it passes) evaluation on a conformant request: did evaluation raise a TYPE error?
fn validate_eval(req: &J) -> J {
    use cedar_policy::{Context, EntityUid, Schema, ValidationMode, Validator};
    use std::str::FromStr;
    let schema = match Schema::from_cedarschema_str(req["schema"].as_str().unwrap_or("")) { Ok(s) => s.0, Err(e) => return json!({"input_error": e.to_string()}) };
    let ps = match PolicySet::from_str(req["policy"].as_str().unwrap_or("")) { Ok(p) => p, Err(e) => return json!({"valid": false, "parse_error": e.to_string()}) };
    let res = Validator::new(schema.clone()).validate(&ps, ValidationMode::Strict);
    if !res.validation_passed() {
        return json!({"valid": false, "errors": res.validation_errors().map(|e| e.to_string()).collect::<Vec<_>>()});
    }
    let permissive = Validator::new(schema.clone()).validate(&ps, ValidationMode::Permissive).validation_passed();
    let ents = match Entities::from_json_value(req["entities"].clone(), Some(&schema)) { Ok(e) => e, Err(e) => return json!({"input_error": e.to_string()}) };
    let (p, a, r) = match (EntityUid::from_str(req["principal"].as_str().unwrap_or("")), EntityUid::from_str(req["action"].as_str().unwrap_or("")), EntityUid::from_str(req["resource"].as_str().unwrap_or(""))) {
        (Ok(p), Ok(a), Ok(r)) => (p, a, r), _ => return json!({"input_error": "uids"}) };
    let cx = match Context::from_json_value(req["context"].clone(), Some((&schema, &a))) { Ok(c) => c, Err(e) => return json!({"input_error": e.to_string()}) };
    let q = match Request::new(p, a, r, cx, Some(&schema)) { Ok(q) => q, Err(e) => return json!({"input_error": e.to_string()}) };
    let resp = Authorizer::new().is_authorized(&q, &ps, &ents);
    let errs: Vec<String> = resp.diagnostics().errors().map(|e| e.to_string()).collect();
    let type_error = errs.iter().any(|e| e.contains("type error") || e.contains("does not have the attribute") || e.contains("does not have the tag") || e.contains("not a known extension function"));
    json!({"valid": true, "permissive": permissive, "decision": format!("{:?}", resp.decision()), "type_error": type_error, "error": errs.first()})
}

/// TPE over partial stores built three ways from the same entities (direct parents only) vs the concrete authorizer, on a fully concrete request
fn tpe_store(req: &J) -> J {
    use cedar_policy::{EntityUid, PartialEntities, PartialEntity, PartialEntityUid, PartialRequest, Schema, Context};
    use std::collections::{BTreeMap, HashSet};
    use std::str::FromStr;
    let schema = match Schema::from_cedarschema_str(req["schema"].as_str().unwrap_or("")) { Ok(s) => s.0, Err(e) => return json!({"input_error": e.to_string()}) };
    let pset = match PolicySet::from_str(req["policies"].as_str().unwrap_or("")) { Ok(p) => p, Err(e) => return json!({"input_error": e.to_string()}) };
    let ents = match Entities::from_json_value(req["entities"].clone(), Some(&schema)) { Ok(e) => e, Err(e) => return json!({"input_error": e.to_string()}) };
    let (p, a, r) = match (EntityUid::from_str(req["principal"].as_str().unwrap_or("")), EntityUid::from_str(req["action"].as_str().unwrap_or("")), EntityUid::from_str(req["resource"].as_str().unwrap_or(""))) {
        (Ok(p), Ok(a), Ok(r)) => (p, a, r), _ => return json!({"input_error": "uids"}) };
    let q = match Request::new(p.clone(), a.clone(), r.clone(), Context::empty(), Some(&schema)) { Ok(q) => q, Err(e) => return json!({"input_error": e.to_string()}) };
    let concrete = format!("{:?}", Authorizer::new().is_authorized(&q, &pset, &ents).decision());
    let preq = match PartialRequest::new(PartialEntityUid::from_concrete(p), a, PartialEntityUid::from_concrete(r), Some(Context::empty()), &schema) { Ok(q) => q, Err(e) => return json!({"input_error": e.to_string()}) };
    let mut routes = serde_json::Map::new();
    let mut run = |name: &str, pe: Result<PartialEntities, String>| {
        let v = match pe {
            Err(e) => format!("store error: {e}"),
            Ok(pe) => match pset.tpe(&preq, &pe, &schema) {
                Err(e) => format!("tpe error: {e}"),
                Ok(resp) => match resp.decision() { Some(d) => format!("{d:?}"), None => "undecided".to_string() },
            },
        };
        routes.insert(name.to_string(), json!(v));
    };
    // (1) from_partial_entities: each entity with the direct parents the caller listed
    let mut list = vec![];
    let mut bad = None;
    for e in req["entities"].as_array().cloned().unwrap_or_default() {
        let uid = EntityUid::from_type_name_and_id(e["uid"]["type"].as_str().unwrap_or("").parse().unwrap(), cedar_policy::EntityId::new(e["uid"]["id"].as_str().unwrap_or("")));
        let parents: HashSet<EntityUid> = e["parents"].as_array().cloned().unwrap_or_default().iter()
            .map(|x| EntityUid::from_type_name_and_id(x["type"].as_str().unwrap_or("").parse().unwrap(), cedar_policy::EntityId::new(x["id"].as_str().unwrap_or("")))).collect();
        match PartialEntity::new(uid, Some(BTreeMap::new()), Some(parents), Some(BTreeMap::new()), &schema) { Ok(pe) => list.push(pe), Err(e) => bad = Some(e.to_string()) }
    }
    run("from_partial_entities", match bad { Some(e) => Err(e), None => PartialEntities::from_partial_entities(list, &schema).map_err(|e| e.to_string()) });
    // (2) from_json_value with the same JSON
    run("from_json_value", PartialEntities::from_json_value(req["entities"].clone(), &schema).map_err(|e| e.to_string()));
    // (3) from_concrete
    run("from_concrete", PartialEntities::from_concrete(ents.clone(), &schema).map_err(|e| e.to_string()));
    json!({"concrete": concrete, "routes": routes})
}

/// one extension constructor applied to one string (a panic is caught by the caller): {fn, arg} -> {ok} | {err}
fn ext_parse(req: &J) -> J {
    use cedar_policy_core::ast::{Expr, Name, RestrictedExpr};
    use cedar_policy_core::evaluator::RestrictedEvaluator;
    use cedar_policy_core::extensions::Extensions;
    let name: Name = match req["fn"].as_str().unwrap_or("").parse() { Ok(n) => n, Err(e) => return json!({"input_error": format!("{e}")}) };
    let e = Expr::call_extension_fn(name, vec![Expr::val(req["arg"].as_str().unwrap_or(""))]);
    let re = match RestrictedExpr::new(e) { Ok(r) => r, Err(e) => return json!({"input_error": e.to_string()}) };
    match RestrictedEvaluator::new(Extensions::all_available()).interpret(re.as_borrowed()) {
        Ok(v) => json!({"ok": v.to_string()}),
        Err(e) => json!({"err": e.to_string()}),
    }
}

fn action_uid() -> cedar_policy::EntityUid { use std::str::FromStr; cedar_policy::EntityUid::from_str(r#"Action::"view""#).unwrap() }

/// entity / context JSON: write-read round trips and implicit (schema-directed) vs explicit (escaped) forms.  -> {checks: [{what, ok, detail}]}
fn value_json(req: &J) -> J {
    use cedar_policy::{Context, Entity, EntityUid, Schema};
    use std::str::FromStr;
    let schema = match Schema::from_cedarschema_str(req["schema"].as_str().unwrap_or("")) { Ok(s) => s.0, Err(e) => return json!({"input_error": e.to_string()}) };
    let mut checks: Vec<J> = vec![];
    let mut add = |what: &str, ok: bool, detail: String| checks.push(json!({"what": what, "ok": ok, "detail": detail}));
    for (label, sch) in [("with the schema", Some(&schema)), ("without a schema", None)] {
        match Entities::from_json_value(req["entities"].clone(), sch) {
            Err(e) => add(&format!("the explicit entities document parses {label}"), false, e.to_string()),
            Ok(ents) => {
                add(&format!("the explicit entities document parses {label}"), true, String::new());
                match ents.to_json_value() {
                    Err(e) => add(&format!("Entities::to_json_value {label}"), false, e.to_string()),
                    Ok(j) => match Entities::from_json_value(j.clone(), sch) {
                        Err(e) => add(&format!("Entities written by to_json_value are read back {label}"), false, format!("{e}; document {j}")),
                        Ok(back) => add(&format!("Entities::to_json_value -> from_json_value gives the same entities {label}"), back.deep_eq(&ents), format!("document {j}")),
                    },
                }
                for e in ents.iter() {
                    match e.to_json_value() {
                        Err(err) => add(&format!("Entity::to_json_value of {} {label}", e.uid()), false, err.to_string()),
                        Ok(j) => match Entity::from_json_value(j.clone(), sch) {
                            Err(err) => add(&format!("the entity {} written by to_json_value is read back {label}", e.uid()), false, format!("{err}; document {j}")),
                            Ok(back) => add(&format!("Entity::to_json_value -> from_json_value gives the same entity {} {label}", e.uid()), back.deep_eq(e), format!("document {j}")),
                        },
                    }
                }
            }
        }
    }
    // the parsed data is what the Cedar-text literals of the probes say (anchors the JSON reader to the text parser, not only to the JSON writer)
    for (label, sch) in [("with the schema", Some(&schema)), ("without a schema", None)] {
        if let Ok(ents) = Entities::from_json_value(req["entities"].clone(), sch) {
            for probe in req["probes"].as_array().cloned().unwrap_or_default() {
                let cond = probe.as_str().unwrap_or("false");
                let ps = match PolicySet::from_str(&format!("permit(principal, action, resource) when {{ {cond} }};")) { Ok(p) => p, Err(e) => { add(&format!("probe `{cond}` parses"), false, e.to_string()); continue } };
                let au = action_uid();
                let cx = match Context::from_json_value(req["context"].clone(), sch.map(|s| (s, &au))) { Ok(c) => c, Err(e) => { add("the context parses", false, e.to_string()); continue } };
                let q = Request::new(EntityUid::from_str(r#"User::"u1""#).unwrap(), action_uid(), EntityUid::from_str(r#"User::"u2""#).unwrap(), cx, None).unwrap();
                let resp = Authorizer::new().is_authorized(&q, &ps, &ents);
                let errs: Vec<String> = resp.diagnostics().errors().map(|e| e.to_string()).collect();
                add(&format!("the store parsed {label} satisfies `{cond}`"), format!("{:?}", resp.decision()) == "Allow", errs.join("; "));
            }
        }
    }
    // implicit forms under the schema = explicit escapes
    match (Entities::from_json_value(req["entities"].clone(), Some(&schema)), Entities::from_json_value(req["implicit"].clone(), Some(&schema))) {
        (Ok(a), Ok(b)) => {
            add("schema-directed parsing of the implicit forms ({type, id}, bare extension strings) gives the same entities as the explicit escapes", a.deep_eq(&b), String::new());
            // ... and as the explicit escapes parsed without a schema (the schema only contributes its action entities)
            if let Ok(c) = Entities::from_json_value(req["entities"].clone(), None) {
                let same = c.iter().all(|e| b.get(&e.uid()).map(|x| x.deep_eq(e)).unwrap_or(false)) && b.iter().all(|e| c.get(&e.uid()).is_some() || e.uid().type_name().to_string().ends_with("Action"));
                add("the implicit forms parsed with the schema give the same entities as the explicit escapes parsed without a schema (plus the schema's actions)", same, String::new());
            }
        }
        (_, Err(e)) => add("the implicit entities document parses with the schema", false, e.to_string()),
        (Err(e), _) => add("the explicit entities document parses with the schema", false, e.to_string()),
    }
    let action = EntityUid::from_str(r#"Action::"view""#).unwrap();
    match (Context::from_json_value(req["context"].clone(), Some((&schema, &action))), Context::from_json_value(req["implicit_context"].clone(), Some((&schema, &action))), Context::from_json_value(req["context"].clone(), None)) {
        (Ok(a), Ok(b), Ok(c)) => {
            add("schema-directed parsing of the implicit context gives the same context as the explicit escapes", a == b, String::new());
            add("the explicit context parses to the same context with and without the schema", a == c, String::new());
            match a.to_json_value() {
                Err(e) => add("Context::to_json_value", false, e.to_string()),
                Ok(j) => {
                    add("Context::to_json_value -> from_json_value (no schema) gives the same context", Context::from_json_value(j.clone(), None).map(|x| x == a).unwrap_or(false), format!("document {j}"));
                    add("Context::to_json_value -> from_json_value (schema) gives the same context", Context::from_json_value(j.clone(), Some((&schema, &action))).map(|x| x == a).unwrap_or(false), format!("document {j}"));
                }
            }
        }
        (a, b, c) => add("the context documents parse", false, format!("{:?} {:?} {:?}", a.err().map(|e| e.to_string()), b.err().map(|e| e.to_string()), c.err().map(|e| e.to_string()))),
    }
    // values that cannot be represented are refused when writing
    for key in ["__entity", "__extn", "__expr"] {
        use cedar_policy::RestrictedExpression;
        let rec = RestrictedExpression::new_record([(key.to_string(), RestrictedExpression::new_long(1))]).unwrap();
        let e = Entity::new(EntityUid::from_str(r#"Group::"g""#).unwrap(), [("x".to_string(), rec.clone())].into_iter().collect(), Default::default());
        match e {
            Ok(e) => add(&format!("an entity with a record attribute whose key is {key} is refused by to_json_value"), e.to_json_value().is_err(), String::new()),
            Err(err) => add(&format!("an entity with a record key {key} can be built through the API"), false, err.to_string()),
        }
        let cx = Context::from_pairs([("x".to_string(), rec)]);
        match cx {
            Ok(cx) => add(&format!("a context with a record value whose key is {key} is refused by to_json_value"), cx.to_json_value().is_err(), String::new()),
            Err(err) => add(&format!("a context with a record key {key} can be built through the API"), false, err.to_string()),
        }
    }
    // documents that must be refused
    for (what, doc) in [("null as an attribute value", json!([{"uid": {"type": "Group", "id": "g"}, "attrs": {"x": null}, "parents": []}])),
                        ("the removed __expr escape", json!([{"uid": {"type": "Group", "id": "g"}, "attrs": {"x": {"__expr": "1 + 1"}}, "parents": []}])),
                        ("a number that is not an i64", json!([{"uid": {"type": "Group", "id": "g"}, "attrs": {"x": 9223372036854775808u64}, "parents": []}])),
                        ("a fractional number", json!([{"uid": {"type": "Group", "id": "g"}, "attrs": {"x": 1.5}, "parents": []}]))] {
        add(&format!("{what} is refused"), Entities::from_json_value(doc, None).is_err(), String::new());
    }
    json!({"checks": checks})
}

/// everything the public API lets one observe of a schema: type / action sets, per-action principals / resources, request environments, validation of probe policies, entity validation
fn schema_summary(schema: &cedar_policy::Schema, probes: &[J], entities: &[J]) -> J {
    use cedar_policy::{ValidationMode, Validator};
    use std::str::FromStr;
    let sorted = |mut v: Vec<String>| { v.sort(); v.dedup(); v };
    let mut per_action = serde_json::Map::new();
    for a in schema.actions() {
        let ps = sorted(schema.principals_for_action(a).map(|i| i.map(|t| t.to_string()).collect()).unwrap_or_default());
        let rs = sorted(schema.resources_for_action(a).map(|i| i.map(|t| t.to_string()).collect()).unwrap_or_default());
        per_action.insert(a.to_string(), json!({"principals": ps, "resources": rs}));
    }
    let v = Validator::new(schema.clone());
    let mut val = vec![];
    for p in probes {
        let text = p.as_str().unwrap_or("");
        let r = match PolicySet::from_str(text) {
            Err(e) => format!("parse error: {e}"),
            Ok(ps) => { let res = v.validate(&ps, ValidationMode::Strict); let mut es: Vec<String> = res.validation_errors().map(|e| e.to_string()).collect(); es.sort(); if es.is_empty() { "valid".to_string() } else { es.join(" | ") } }
        };
        val.push(json!([text, r]));
    }
    let ents: Vec<J> = entities.iter().map(|doc| match Entities::from_json_value(doc.clone(), Some(schema)) { Ok(_) => json!("accepted"), Err(e) => json!(format!("refused: {}", e.to_string().chars().take(80).collect::<String>())) }).collect();
    json!({"entity_types": sorted(schema.entity_types().map(|t| t.to_string()).collect()), "actions": sorted(schema.actions().map(|t| t.to_string()).collect()), "action_groups": sorted(schema.action_groups().map(|t| t.to_string()).collect()),
           "principals": sorted(schema.principals().map(|t| t.to_string()).collect()), "resources": sorted(schema.resources().map(|t| t.to_string()).collect()), "per_action": per_action,
           "request_envs": sorted(schema.request_envs().map(|e| format!("{:?}", e)).collect()), "validation": val, "entities": ents})
}

/// Cedar-syntax schema vs hand-written JSON equivalent, and both printers round-tripped.  -> {checks: [{what, ok, detail}]}
fn schema_syntax(req: &J) -> J {
    use cedar_policy::{Schema, SchemaFragment};
    let mut checks: Vec<J> = vec![];
    let mut add = |what: &str, ok: bool, detail: String| checks.push(json!({"what": what, "ok": ok, "detail": detail}));
    let probes = req["probes"].as_array().cloned().unwrap_or_default();
    let ents = req["entities"].as_array().cloned().unwrap_or_default();
    let cedar = req["cedar"].as_str().unwrap_or("");
    let diff = |a: &J, b: &J| -> String {
        let mut out = vec![];
        if let (Some(x), Some(y)) = (a.as_object(), b.as_object()) {
            for (k, v) in x { if y.get(k) != Some(v) {
                if let (Some(va), Some(vb)) = (v.as_array(), y.get(k).and_then(|z| z.as_array())) { for (i, e) in va.iter().enumerate() { if vb.get(i) != Some(e) { out.push(format!("{k}[{i}]: {e} vs {}", vb.get(i).cloned().unwrap_or(J::Null))); break; } } }
                else { out.push(format!("{k}: {v} vs {}", y.get(k).cloned().unwrap_or(J::Null))); }
            } }
        }
        out.join("; ").chars().take(500).collect()
    };
    let s_c = match Schema::from_cedarschema_str(cedar) { Ok(s) => s.0, Err(e) => { add("the Cedar-syntax schema parses", false, e.to_string()); return json!({"checks": checks}) } };
    let s_j = match Schema::from_json_value(req["json"].clone()) { Ok(s) => s, Err(e) => { add("the JSON-syntax schema parses", false, e.to_string()); return json!({"checks": checks}) } };
    let (sum_c, sum_j) = (schema_summary(&s_c, &probes, &ents), schema_summary(&s_j, &probes, &ents));
    add("the Cedar-syntax schema and its JSON equivalent are observably the same schema (types, actions, per-action principals / resources, request environments, probe policies, entity documents)", sum_c == sum_j, diff(&sum_c, &sum_j));
    // the probes must discriminate: some valid, some not
    let nvalid = sum_c["validation"].as_array().map(|v| v.iter().filter(|x| x[1] == "valid").count()).unwrap_or(0);
    add("the probe policies discriminate (some validate, some do not)", nvalid > 3 && nvalid + 3 < probes.len(), format!("{nvalid} of {} valid", probes.len()));
    // Cedar -> JSON printer
    match SchemaFragment::from_cedarschema_str(cedar) {
        Err(e) => add("the Cedar-syntax schema parses as a fragment", false, e.to_string()),
        Ok((f, _)) => {
            match f.to_cedarschema() {
                Err(e) => add("the fragment read from Cedar syntax prints as Cedar syntax", false, e.to_string()),
                Ok(text) => match Schema::from_cedarschema_str(&text) {
                    Err(e) => add("the Cedar text printed from the fragment parses", false, format!("{e}: {text}")),
                    Ok((s, _)) => { let sm = schema_summary(&s, &probes, &ents); add("Cedar syntax -> fragment -> printed Cedar syntax denotes the same schema", sm == sum_c, diff(&sm, &sum_c)) }
                },
            }
            match f.to_json_value() {
                Err(e) => add("the fragment read from Cedar syntax prints as JSON", false, e.to_string()),
                Ok(j) => match Schema::from_json_value(j.clone()) {
                    Err(e) => add("the JSON printed from the Cedar-syntax fragment parses", false, format!("{e}: {j}")),
                    Ok(s) => { let sm = schema_summary(&s, &probes, &ents); add("Cedar syntax -> fragment -> printed JSON denotes the same schema", sm == sum_c, diff(&sm, &sum_c)) }
                },
            }
        }
    }
    // JSON -> Cedar printer
    match SchemaFragment::from_json_value(req["json"].clone()) {
        Err(e) => add("the JSON-syntax schema parses as a fragment", false, e.to_string()),
        Ok(f) => match f.to_cedarschema() {
            Err(e) => add("the fragment read from JSON prints as Cedar syntax", false, e.to_string()),
            Ok(text) => match Schema::from_cedarschema_str(&text) {
                Err(e) => add("the Cedar text printed from the JSON fragment parses", false, format!("{e}: {text}")),
                Ok((s, _)) => { let sm = schema_summary(&s, &probes, &ents); add("JSON syntax -> fragment -> printed Cedar syntax denotes the same schema", sm == sum_j, diff(&sm, &sum_j)) }
            },
        },
    }
    for r in req["refused"].as_array().cloned().unwrap_or_default() {
        let t = r.as_str().unwrap_or("");
        add(&format!("`{t}` is refused"), Schema::from_cedarschema_str(t).is_err(), String::new());
    }
    json!({"checks": checks})
}

/// partial authorization with an unknown principal of a known TYPE (and / or a partial store) vs every completion: a definite partial answer must be the answer of
/// every completion, and re-authorizing with the completion must give what authorizing from scratch gives.
/// {policies, entities, partial_store: bool, principal_type, completions: [uid text], resource} -> {partial: .., completions: [{principal, scratch, reauthorized}]}
fn partial_completions(req: &J) -> J {
    use cedar_policy::{Context, EntityUid, RestrictedExpression};
    let pset = match PolicySet::from_str(req["policies"].as_str().unwrap_or("")) { Ok(p) => p, Err(e) => return json!({"input_error": e.to_string()}) };
    let full = match Entities::from_json_value(req["entities"].clone(), None) { Ok(e) => e, Err(e) => return json!({"input_error": e.to_string()}) };
    // the store seen by partial evaluation: optionally a partial store holding only the entities listed in `known`
    let seen = match req.get("known") {
        Some(k) if !k.is_null() => match Entities::from_json_value(k.clone(), None) { Ok(e) => e.partial(), Err(e) => return json!({"input_error": e.to_string()}) },
        _ => full.clone(),
    };
    let auth = Authorizer::new();
    let action = EntityUid::from_str(r#"Action::"view""#).unwrap();
    let resource = EntityUid::from_str(req["resource"].as_str().unwrap_or(r#"Doc::"d1""#)).unwrap();
    let mut b = Request::builder().action(action.clone()).resource(resource.clone()).context(Context::empty());
    b = match req["principal_type"].as_str() { Some(t) => b.unknown_principal_with_type(t.parse().unwrap()), None => b.principal(EntityUid::from_str(req["principal"].as_str().unwrap_or(r#"User::"alice""#)).unwrap()) };
    let pr = auth.is_authorized_partial(&b.build(), &pset, &seen);
    let view = |r: &cedar_policy::Response| { let mut rs: Vec<String> = r.diagnostics().reason().map(|p| p.to_string()).collect(); rs.sort(); let mut es: Vec<String> = r.diagnostics().errors().map(|e| e.to_string().chars().take(60).collect()).collect(); es.sort(); json!({"decision": format!("{:?}", r.decision()), "reasons": rs, "errors": es}) };
    let mut outs = vec![];
    for c in req["completions"].as_array().cloned().unwrap_or_default() {
        let p = EntityUid::from_str(c.as_str().unwrap_or("")).unwrap();
        let q = Request::new(p.clone(), action.clone(), resource.clone(), Context::empty(), None).unwrap();
        let scratch = auth.is_authorized(&q, &pset, &full);
        let re = if req["principal_type"].is_string() {
            let v = RestrictedExpression::new_entity_uid(p.clone());
            match pr.reauthorize_with_bindings([("principal", &v)].into_iter(), &auth, &full) { Ok(r2) => { let c = r2.clone().concretize(); json!({"decision": r2.decision().map(|d| format!("{d:?}")), "concretized": view(&c)}) }, Err(e) => json!({"error": e.to_string()}) }
        } else { J::Null };
        outs.push(json!({"principal": p.to_string(), "scratch": view(&scratch), "reauthorized": re}));
    }
    json!({"partial": summarize_partial(&pr), "completions": outs})
}

fn handle(req: &J) -> J {
    match req["op"].as_str().unwrap_or("") {
        "eval" => eval(req),
        "authorize" => authorize(req),
        "authorize_partial" => authorize_partial(req),
        "tpe_views" => tpe_views(req),
        "policyset_ops" => policyset_ops(req),
        "peval" => peval(req),
        "validate_level" => validate_level(req),
        "conformance" => conformance(req),
        "policy_eq" => policy_eq(req),
        "tc" => tc(req),
        "tc_edit" => tc_edit(req),
        "batched" => batched(req),
        "est_roundtrip" => est_roundtrip(req),
        "policyset_merge" => policyset_merge(req),
        "link_json" => link_json(req),
        "ffi_authorize" => ffi_authorize(req),
        "ffi_shapes" => ffi_shapes(req),
        "ffi_history" => ffi_history(req),
        "ffi_validate" => ffi_validate(req),
        "proto_roundtrip" => proto_roundtrip(req),
        "permission_query" => permission_query(req),
        "fuzzy" => fuzzy(req),
        "validate_eval" => validate_eval(req),
        "tpe_store" => tpe_store(req),
        "ext_parse" => ext_parse(req),
        "value_json" => value_json(req),
        "schema_syntax" => schema_syntax(req),
        "partial_completions" => partial_completions(req),
        "manifest_slice" => manifest_slice(req),
        "est_print" => est_print(req),
        "ffi_convert" => ffi_convert(req),
        other => json!({"unknown_op": other}),
    }
}

fn main() {
    std::panic::set_hook(Box::new(|_| {}));
    let stdin = std::io::stdin();
    let mut out = std::io::stdout().lock();
    for line in stdin.lock().lines() {
        let line = match line {
            Ok(l) => l,
            Err(_) => break,
        };
        if line.trim().is_empty() {
            continue;
        }
        let req: J = match serde_json::from_str(&line) {
            Ok(j) => j,
            Err(e) => {
                writeln!(out, "{}", json!({"bad_request": e.to_string()})).ok();
                continue;
            }
        };
        let ans = match std::panic::catch_unwind(|| handle(&req)) {
            Ok(a) => a,
            Err(p) => {
                let msg = p
                    .downcast_ref::<String>()
                    .cloned()
                    .or_else(|| p.downcast_ref::<&str>().map(|s| s.to_string()))
                    .unwrap_or_else(|| "panic".to_string());
                json!({"panic": msg})
            }
        };
        writeln!(out, "{}", ans).ok();
    }
}
